"""C18 (model J "Race"): data-race freedom.  PARTIAL: Coq proves the locking discipline sufficient for
happens-before race freedom and checks the access table extracted from the sources against it; that the code's
accesses are exactly the table's entries is extracted syntactically (extract/facts_race.go) and sampled
dynamically (harness/drivers/race under the Go race detector)."""


def sig_c18(f):
    """one narrow signature per racing pair: the innermost go-task frames of both accesses, sorted."""
    k = f["kind"]
    if k == "race":
        first = (f.get("detail") or "").split("\n", 1)[0]
        if first.startswith("pair="):
            return "race:" + first[5:].strip()
        return "race:unparsed"
    return k


PROPS = {
    "C18": dict(
        src="Properties/C18.v", target="Properties/C18.vo",
        support=["Race/Model.vo", "Race/Proofs.vo"], run_targets=["Run/RaceCases.vo"],
        drivers=[dict(name="race", build_flags=["-race"], n_quick=52, n_thorough=1000, shard=125,
                      results={"R_obs_in_table": "agree", "R_offender_seen": "agree"})],
        signature=sig_c18,
        rule="LEVEL: partial. Proved in Coq (unbounded traces, any number of threads): lockset_ok T -> every valid execution annotated by T is "
             "happens-before race free (program order, go/fork, Wait/join, Unlock->Lock incl. RWMutex modes, k-th send -> k-th receive, close -> receive on signal channels); "
             "checked by vm_compute, finite and exact: lockset_ok(table extracted from the current tree) = true, no class exempted (C18_table_ok); the entries as extracted before the repairs "
             "(/repo 25abf76 output buffers, 3d636e5 matrix ref) are kept as the named pre-fix variant and offend class by class (C18_prefix_variant_refuted, C18_unlocked_write_refuted). "
             "NOT proved: that the Go code's accesses are exactly the table's entries (syntactic extraction with go/parser+go/types: every struct field = object class, R/W by position, "
             "locks by a structured walk of each function incl. locks held by every caller of an unexported helper, concurrency phase by call-graph reachability from (*Executor).RunTask, "
             "per-call freshness DERIVED by a fixpoint over locals, parameters, results, values stored into struct fields (assignments and composite literals), elements appended to slice fields, "
             "loop variables over such fields, and arguments of calls through named func types (functional options), with publication-escape tracking; "
             "one hand-written assumption remains, emitted as Extracted.race_assumptions and that the race detector agrees with the model (sampled). "
             "cases: each case = a generated Taskfile tree (acyclic task graph with parallel deps, duplicated deps, nested task calls, run: once/when_changed, for-loops over lists/vars/matrix incl. ref: rows, "
             "dynamic sh: vars and env, dotenv, requires, preconditions, status, sources/generates, dir, includes, wildcard tasks, defer, pipelines, output interleaved/group/prefixed) run by the real Executor "
             "(optionally --parallel targets, concurrency limit, verbose, force) in a child process of a driver built with -race, under 3 GOMAXPROCS values per program, free-running, free-running with seed-derived delays in the writers, or with "
             "randomised release of gated writes (harness/sched, small programs); the harness's own writers are stateless. Every race report whose two accesses both have go-task frames is an implementation failure "
             "(signature = the pair of innermost go-task frames). 4 directed cases aim at the classes the table flags. cases.v: R_obs_in_table = every observed racing pair maps to a class the table "
             "does not protect; R_offender_seen = every class the table does not protect was observed racing. non-trivial = Setup succeeded and Run returned; distinct = distinct (Taskfile, GOMAXPROCS, scheduling, targets)",
        assumptions=[
            "PARTIAL: the access table is extracted syntactically; accesses through reflection, third-party code and function values are not seen",
            "per-call copies (scope 'fresh' in the table) are confined to the goroutine that made them or handed over at a go statement; closures capturing them are not tracked",
            "functions not reachable from (*Executor).RunTask run only on the calling goroutine before any task goroutine exists (watch mode and the concurrent Taskfile reader are outside this property)",
            "the one hand-written freshness assumption of the extractor (Extracted.race_assumptions): `task.(*Executor).RunTask :: param:call` -- every target / dep / task call gets its own *Call "
            "(API boundary: Run's callers build one per target). The former six others (call.Vars is the callee's copy; the compiled task's Cmds are DeepCopies -- the one that hid seeded C18-2; "
            "the four fingerprint options mutate their caller's fresh config) are now checked derivations of the extractor",
            "Go's happens-before edges used by the model are those of the Go memory model for sync.Mutex/RWMutex, go statements, errgroup.Wait, channel send/receive/close",
        ],
        trusted=["extractor assumption (hand-written, keyed on function+expression, falls back to 'shared' if the code changes shape): task.(*Executor).RunTask :: param:call = one *Call object per call",
                 "extractor allow-list of non-mutating method names on third-party containers (raceReadOnlyMethods: Get, Len, Keys, Values, Front, ..., SpellCheck of sajari/fuzzy which locks internally)",
                 "the Go race detector (ThreadSanitizer runtime) as the dynamic oracle; it only flags races on executions that actually happen",
                 "modelled, not verified: mvdan/sh (runs pipeline stages on separate goroutines), orderedmap, bytes.Buffer"],
    ),
}
