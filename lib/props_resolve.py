"""C15 (task name resolution) - model D "Resolve"."""


def sig_c15(f):
    """One narrow signature per distinct defect.  The classification is done in Coq
    (Run/ResolveCases.v): a case on which the C15 monitor is false goes to the list of a recorded
    defect only if it is in that defect's class (metacharacter in a task name / newline in the
    request) AND the observation is exactly what the model of that defect predicts; every other
    failing case lands on an "_other" list, whose signature is never a recorded one."""
    k = f["kind"]
    inp = f.get("input") or {}
    names = [t.get("name", "") for t in (inp.get("tasks") or [])]
    meta = any(c in n for n in names for c in "\\.+?()[]{}|^$")
    if k == "panic":
        # impl_failure seen by the driver (recover() around GetTask, or exit status 2 + "panic:" from the CLI)
        if "regexp: Compile(" in (f.get("detail") or "") and meta:
            return "mustcompile-panic"
        return "panic:" + (f.get("detail") or "").split("\n")[0][:80]
    table = {
        "R_mon_nopanic_meta": "mustcompile-panic",
        "R_mon_nopanic_other": "panic-not-explained-by-regexp-reading",
        "R_mon_choice_meta": "regex-metachar-not-literal",
        "R_mon_choice_nl": "star-excludes-newline",
        "R_mon_choice_other": "wrong-resolution",
        "R_mon_suggest_missing": "no-suggestion",
        "R_mon_suggest_bogus": "suggestion-not-a-task",
        "R_cli_mon_meta": "regex-metachar-not-literal",
        "R_cli_mon_nl": "star-excludes-newline",
        "R_cli_mon_other": "cli-wrong-exit-or-run",
        "R_cli_suggest_missing": "no-suggestion",
        "R_cli_suggest_bogus": "suggestion-not-a-task",
    }
    return table.get(k, k)


_RESULTS = {
    "R_agree": "agree",
    "R_mon_choice_other": "mon", "R_mon_choice_meta": "mon", "R_mon_choice_nl": "mon",
    "R_mon_nopanic_other": "mon", "R_mon_nopanic_meta": "mon",
    "R_mon_suggest_missing": "mon", "R_mon_suggest_bogus": "mon",
    "R_cli_agree": "agree",
    "R_cli_mon_other": "mon", "R_cli_mon_meta": "mon", "R_cli_mon_nl": "mon",
    "R_cli_suggest_missing": "mon", "R_cli_suggest_bogus": "mon",
}

PROPS = {
    "C15": dict(
        src="Properties/C15.v", target="Properties/C15.vo",
        # statements about the tree as it is: the "flag is repaired" premises discharged against Extracted.Facts
        more_src=["Properties/C15Current.v"],
        support=["Resolve/Model.vo"], run_targets=["Run/ResolveCases.vo"],
        drivers=[
            dict(name="resolve", n_quick=2400, n_thorough=24000, shard=600, results=_RESULTS),
            # small scope, exhaustive: every table of <= 2 tasks with names over {a,*,.} (length <= 2 quick, <= 3 thorough)
            # x every request over {a,*,.} of length <= 3; shard index = seed % 1000
            dict(name="resolve-exh", cmd="resolve", extra="mode=exh,shard=200", n_quick=156, n_thorough=1521, shard=200, results=_RESULTS),
        ],
        signature=sig_c15,
        rule="cases: (api) a generated task table (1-5 tasks; plain words, wildcard patterns, names with regexp metacharacters : . * - ( ) [ ] + ? \\ $ ^ |, "
             "unique/ambiguous/colliding aliases; for a quarter of the tables the tail lives in an included file under a namespace, with the includes: section written before the root tasks) is written as a Taskfile, loaded by the real Executor (NewExecutor+Setup, glue-checked), and one requested name "
             "(exact hit, alias, instance of a pattern incl. greedy traps and newlines, one-edit near miss, regexp trap, random) is resolved by the real "
             "GetTask/FindMatchingTasks under recover; observed = chosen task + .MATCH | conflict names | not-found + DidYouMean | panic. "
             "(cli) a sample goes through the real task binary: exit status, which probe commands ran with which .MATCH, the 'Did you mean' text. "
             "Coq evaluates mon_choice/mon_suggest/mon_cli (the functions of Properties/C15.v) on the observation ('mon') and compares with find/run_calls of the "
             "variant derived from extracted facts ('agree'). resolve-exh enumerates all tables/requests of a small scope. "
             "non-trivial = not a plain not-found; distinct = distinct (table, request, observation) triples",
        assumptions=["the table is the merged task table in Taskfile order; for a single include the glue check against the real loader confirms parent-file tasks come first (order among sibling includes is model C / C09, finding 7.14)",
                     "the suggestion library (sajari/fuzzy) is an oracle: assumed to return a trained word, and to return one when a lower-case alphanumeric "
                     "request of >= 4 characters is one edit away from such a name or alias",
                     "the model of the unquoted reading covers the RE2 syntax reachable from the harness alphabet; other syntax (word boundaries, \\Q..\\E, Unicode/POSIX classes, hex/octal escapes, {n,m}, flag groups) is 'Unmodelled' (no claim, counted in cases.v as N_unmodelled; a failing monitor on such a case is attributed to the recorded regexp defect)"],
        trusted=["modelled, not verified: Go's regexp package (the repaired WildcardMatch relies on QuoteMeta + greedy (.*) groups having the split-at-star semantics), "
                 "yaml.v3 key order, sajari/fuzzy"],
    ),
}
