"""C01 C02 C03 C06 C07 C13 C14: the concurrent executor (model A), one shared driver."""

EXEC_RULE = ("generated acyclic programs (2-7 tasks, deps/cmds/nested calls/defer entries, run modes, failing and "
             "ignored commands, guards) rendered to a Taskfile and run by the REAL Executor under the controlled "
             "scheduler (every write parks; release order from the PRNG; N in {unlimited,1,2,3}); the observed "
             "arrival/release sequence is (a) fed to the property's monitor in Coq and (b) replayed in the Coq "
             "machine (GOMAXPROCS=1 runs): agree = accepted by the model and same final result. "
             "non-trivial = more than 4 observations; distinct = distinct (program, release order)")

EXEC_TRUSTED = ["modelled, not verified: mvdan/sh (a command is a probe write plus an exit status), text/template, "
                "the Go scheduler (the model allows every interleaving of micro-steps), errgroup/context (first "
                "error cancels the group)",
                "quiescence detection of the controlled scheduler (goroutine states of runtime.Stack)"]

EXEC_ASSUME = ["a shell builtin (printf) delivers the probe as one Write and ends when it is released",
               "guard outcomes (platform, required vars, precondition, prompt) are static per task in the model; "
               "the harness realises them with platforms:/requires:/preconditions:/prompt: entries"]


def sig_exec(f):
    k = f["kind"]
    return "exec:" + k


def exec_prop(pid, results, extra=None, n_quick=280, n_thorough=4000, more=()):
    return dict(
        src="Properties/%s.v" % pid, target="Properties/%s.vo" % pid, more_src=list(more),
        support=["Exec/Model.vo", "Exec/Monitors.vo", "Exec/Replay.vo"], run_targets=["Run/ExecCases.vo"],
        drivers=[dict(name="exec", n_quick=n_quick, n_thorough=n_thorough, shard=70, extra=extra,
                      results=dict(results, R_agree="agree"))],
        signature=sig_exec, rule=EXEC_RULE, assumptions=EXEC_ASSUME, trusted=EXEC_TRUSTED)


PROPS = {
    "C01": exec_prop("C01", {"R_C01": "mon", "R_waits": "mon"}, more=["Properties/C01deps.v", "Properties/C02seal.v"]),
    "C02": exec_prop("C02", {"R_C02": "mon", "R_calls": "mon", "R_waits": "mon"},
                     more=["Properties/C02calls.v", "Properties/C02seal.v"]),
    "C03": exec_prop("C03", {"R_C03": "mon", "R_C03s": "mon", "R_C01": "mon", "R_calls": "mon"},
                     more=["Properties/C03fail.v", "Properties/C03status.v", "Properties/C02calls.v"]),
    "C06": exec_prop("C06", {"R_C06": "mon", "R_calls": "mon", "R_waits": "mon"},
                     more=["Properties/C06outcome.v", "Properties/C02calls.v", "Properties/C02seal.v"]),
    "C07": exec_prop("C07", {"R_C07": "mon", "R_eager": "mon"}, extra="cyclic=1,fanout=1", more=["Properties/C07progress.v", "Properties/C07term.v"]),
    "C13": exec_prop("C13", {"R_C13": "mon", "R_calls": "mon", "R_C01": "mon"},
                     more=["Properties/C02calls.v", "Properties/C01deps.v"]),
    "C14": exec_prop("C14", {"R_C14": "mon", "R_C02": "mon"}, more=["Properties/C14defer.v"]),
}
