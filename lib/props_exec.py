"""C01 C02 C03 C06 C07 C13 C14: the concurrent executor (model A), one shared driver."""

EXEC_RULE = ("generated acyclic programs (2-7 tasks, deps/cmds/nested calls/defer entries, run modes, failing and "
             "ignored commands, guards) rendered to a Taskfile and run by the REAL Executor under the controlled "
             "scheduler (every write parks; release order from the PRNG; N in {unlimited,1,2,3}); the observed "
             "arrival/release sequence is (a) fed to the property's monitor in Coq and (b) replayed in the Coq "
             "machine (GOMAXPROCS=1 runs): agree = accepted by the model and same final result. "
             "non-trivial = more than 4 observations; distinct = distinct (program, release order). "
             "Besides the generated programs: directed templates (round-robin), cyclic programs run through the real "
             "CLI in a child process (judged on exit class / task-start count / blockedness), and small hand-written "
             "scenario families judged on the real Executor against the outcome written next to each scenario "
             "(guards, whenkeys, prompts, callvars, fanout) - these are correspondence runs, not proof")

EXEC_TRUSTED = ["modelled, not verified: mvdan/sh (a command is a probe write plus an exit status), text/template, "
                "the Go scheduler (the model allows every interleaving of micro-steps), errgroup/context (first "
                "error cancels the group)",
                "quiescence detection of the controlled scheduler (goroutine states of runtime.Stack)"]

EXEC_ASSUME = ["a shell builtin (printf) delivers the probe as one Write and ends when it is released",
               "guard outcomes (platform, required vars, precondition, prompt) are static per task in the model; "
               "the harness realises them with platforms:/requires:/preconditions:/prompt: entries"]


def sig_exec(f):
    k = f["kind"]
    if f.get("driver") == "forloop":
        return "for:" + k
    return "exec:" + k


# second driver of C02: the expansion of `for:` loops into the per-call command list (coq/Exec/ForLoop.v)
FOR_RULE = ("for-loop expansion (driver forloop): generated Taskfiles whose cmds and deps hold `for:` loops of every form "
            "(explicit list 0-4 items with duplicates / blanks, matrix 1-3 keys x 0-3 values incl. empty rows and ref: rows, "
            "var + split with 1- and n-character separators, var whitespace fields, list and map variables, sources / "
            "generates, as:, loops over task calls with vars, plain / null / defer entries around them) are compiled by the "
            "REAL Executor.CompiledTask / FastCompiledTask; the expanded Cmds / Deps in order are compared in Coq with the "
            "model's expand (agree) and judged by mon_for (declaration order, list order, matrix lexicographic order first "
            "key slowest; a map loop up to the order of its own iterations); a sample is RUN by the real Executor and the "
            "order of the output lines judged by the same specification. Every field of the expanded ast.Cmd / ast.Dep is "
            "read by reflection (text / callee / vars = body; ignore_error, silent, set, shopt, platforms, defer = "
            "attributes, generated at random on loop and plain entries; an unknown field is reported) and mon_attrs checks "
            "that every produced command carries its entry's attributes; the runs include loops whose command "
            "`echo ..; (exit <item>)` fails in some iteration with ignore_error (suppressed for exactly that iteration, "
            "everything later runs, Run returns nil) and without (the task stops there, Run returns an error). "
            "shard 0 enumerates all list / matrix shapes and every loop form x attribute setting. "
            "non-trivial = at least 2 expanded entries; distinct = distinct inputs")
FOR_ASSUME = ["for-loop model: values are ASCII text (strings.Fields on non-ASCII white space is not modelled); "
              "{{.ITEM.K}} is only used under a matrix loop; matrix keys are distinct (the YAML decoder's ordered map)",
              "for: {var: X} with X a map iterates in Go map order (documented as random): the model takes the order as an "
              "external permutation, the monitor accepts any order of that loop's own iterations",
              "for: sources / generates: the glob result (fingerprint.Globs) is an oracle list"]
FOR_DRIVER = dict(name="forloop", n_quick=120, n_thorough=3000, shard=1000,
                  results={"R_for_agree": "agree", "R_for_mon": "mon", "R_for_attrs": "mon", "R_for_map": "mon",
                           "R_for_run": "mon"})


def exec_prop(pid, results, extra=None, n_quick=280, n_thorough=4000, more=(), forloop=False):
    p = dict(
        src="Properties/%s.v" % pid, target="Properties/%s.vo" % pid, more_src=list(more),
        support=["Exec/Model.vo", "Exec/Monitors.vo", "Exec/Replay.vo"], run_targets=["Run/ExecCases.vo"],
        drivers=[dict(name="exec", n_quick=n_quick, n_thorough=n_thorough, shard=70, extra=extra,
                      results=dict(results, R_agree="agree"))],
        signature=sig_exec, rule=EXEC_RULE, assumptions=EXEC_ASSUME, trusted=EXEC_TRUSTED)
    if forloop:
        p["drivers"].append(dict(FOR_DRIVER))
        p["support"] = p["support"] + ["Exec/ForLoop.vo"]
        p["run_targets"] = p["run_targets"] + ["Run/ForCases.vo"]
        p["rule"] = EXEC_RULE + "; " + FOR_RULE
        p["assumptions"] = EXEC_ASSUME + FOR_ASSUME
    return p


PROPS = {
    "C01": exec_prop("C01", {"R_C01": "mon", "R_C01d": "mon", "R_waits": "mon"}, more=["Properties/C01deps.v", "Properties/C01defer.v", "Properties/C02seal.v"]),
    "C02": exec_prop("C02", {"R_C02": "mon", "R_calls": "mon", "R_waits": "mon"}, extra="callvars=1",
                     more=["Properties/C02calls.v", "Properties/C02seal.v", "Properties/C02for.v"], forloop=True),
    "C03": exec_prop("C03", {"R_C03": "mon", "R_C03s": "mon", "R_C14x": "mon", "R_C01": "mon", "R_calls": "mon"},
                     more=["Properties/C03fail.v", "Properties/C03status.v", "Properties/C14x.v", "Properties/C02calls.v",
                           "Properties/C02for.v"], forloop=True),
    "C06": exec_prop("C06", {"R_C06": "mon", "R_calls": "mon", "R_waits": "mon"}, extra="whenkeys=1",
                     more=["Properties/C06outcome.v", "Properties/C02calls.v", "Properties/C02seal.v"]),
    "C07": exec_prop("C07", {"R_C07": "mon", "R_eager": "mon"}, extra="cyclic=1,fanout=1", more=["Properties/C07progress.v", "Properties/C07term.v"]),
    "C13": exec_prop("C13", {"R_C13": "mon", "R_C13s": "mon", "R_calls": "mon", "R_C01": "mon"}, extra="prompts=1,guards=1",
                     more=["Properties/C13status.v", "Properties/C02calls.v", "Properties/C01deps.v"]),
    "C14": exec_prop("C14", {"R_C14": "mon", "R_C14x": "mon", "R_C01d": "mon", "R_C02": "mon", "R_waits": "mon", "R_calls": "mon"},
                     more=["Properties/C14defer.v", "Properties/C14x.v", "Properties/C01defer.v", "Properties/C02seal.v", "Properties/C02calls.v"]),
}
