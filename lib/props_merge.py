"""C08 / C09 (model C "Merge"): configuration of bin/check and the signature functions."""

# differences between two loads of one tree that the random merge order of sibling includes (7.14) explains
_ORDER_CLASSES = {"task-order", "global-vars", "global-env", "included-taskfile-vars", "output-style", "aliases",
                  "error-class", "compiled-only"}


def _diag(f):
    return ((f.get("input") or {}).get("diag")) or {}


def sig_c08(f):
    k = f["kind"]
    d = _diag(f)
    if k == "R_vardir":
        return "vardir:include-dir-stamped-into-shared-vars"
    if k == "R_c08_deepcopy":
        miss = d.get("deepcopy_missing") or []
        return "deepcopy-drops:" + ",".join(miss) if miss else k + ":undiagnosed"
    if k == "R_c08_attrs":
        lost = d.get("attrs_lost") or []
        return "deepcopy-drops:" + ",".join(lost) if lost else k + ":undiagnosed"
    if k in ("R_c08_refs", "R_c08_exec"):
        rr = d.get("rootref") or []
        if rr:
            return "rootref:" + ("nested" if "nested" in rr else "flatten")
        return k + ":undiagnosed"
    return k


def sig_c09(f):
    k = f["kind"]
    d = _diag(f)
    if k == "R_vardir":
        return "vardir:include-dir-stamped-into-shared-vars"
    if k == "R_c09_det":
        cl = d.get("c09") or []
        if cl == ["listing-order"]:
            return "nondet:listing-order"   # same table, the --list / --list-all (--json) listing comes in another order
        if cl == ["compiled-only"]:
            return "nondet:compiled-only"   # same table, different evaluated variables / stamped directories
        if cl and set(cl) <= _ORDER_CLASSES:
            return "nondet:merge-order"
        return "nondet:" + (",".join(cl) if cl else "undiagnosed")
    return k


_COMMON_ASSUME = [
    "YAML decoding and the file system are outside the model: the model's input is what the real decoder produced for each file on its own; templates in taskfile:/dir: of include statements are modelled on the family {{.NAME}} / {{.NAME | default \"x\"}} (variables = process environment overlaid with the static globals of the including file; the driver checks its reading of every template against the real templater)",
    "paths are slash separated; filepath.Join/Clean/Dir are modelled on that domain (no symlinks, no special-dir variables)",
    "ast.Var.Dir (working directory of sh: variables) is carried in front of every variable value (\"<Dir>|<value>\"); the in-place variant of Vars.Merge is modelled (v_inplace) but the general theorems assume the copy variant, discharged from the extracted fact vars_merge_dir_inplace",
    "a failing Taskfile.Merge is modelled as a sticky error of the including file; graph.Merge's first error is computed separately (merge_err)",
]
_COMMON_TRUST = ["modelled, not verified: yaml.v3, text/template, dominikbraun/graph (AddVertex/AddEdge/PreventCycles/TopologicalSort), orderedmap"]

PROPS = {
    "C08": dict(
        src="Properties/C08.v", target="Properties/C08.vo",
        # statements about the tree as it is: the "flag is repaired" premises discharged against Extracted.Facts
        more_src=["Properties/C08Current.v"],
        support=["Merge/Model.vo", "Merge/Spec.vo"], run_targets=["Run/MergeCases.vo"],
        drivers=[dict(name="merge", extra="mode=c08", n_quick=240, n_thorough=3000, shard=30,
                      results={"R_read": "agree", "R_merge": "agree", "R_wf": "agree", "R_vardir": "mon", "R_listing": "mon",
                               "R_c08_present": "mon", "R_c08_refs": "mon", "R_c08_attrs": "mon", "R_c08_place": "mon",
                               "R_c08_aliases": "mon", "R_c08_default": "mon", "R_c08_dropped": "mon", "R_c08_errors": "mon", "R_c08_exec": "mon",
                               "R_c08_deepcopy": "mon"})],
        signature=sig_c08,
        rule="a case = one generated include tree (2-5 files, depth <= 3, diamonds, the same file twice, injected cycle / missing file / version mismatch / dotenv; "
             "include options dir/optional/internal/flatten/aliases/excludes/vars pairwise; every task attribute set on some task) written to a temp dir. "
             "R_read: real taskfile.Reader graph (vertices, edges, resolved dirs) or error class vs the model reader on the standalone-decoded files. "
             "R_merge: table built by the real Executor.Setup (every field of every ast.Task by reflection, vars, env, output) or its error class is one of the model's outcomes merge_all current_variant G pi sigma over all topological orders pi and edge orders sigma. "
             "R_c08_*: the monitors of Properties/C08.v evaluated on the real table; R_c08_exec: up to 3 callable names per tree run through the real Executor (origin marker, pwd, include vars, markers of referenced tasks); "
             "R_wf: the graph is in the theorems' domain (wf_graphb, wf_outb, a topological order exists). R_c08_deepcopy: extracted field lists of Task/Cmd/Dep.DeepCopy and compiledTask vs the struct fields (cross-checked dynamically by copying a fully populated ast.Task). "
             "directed families: a non-flattened include that excludes the default task of a file defining one (every 10th tree); (every 5th tree) task names / namespace keys containing ':' that collide, or nearly collide, with the qualified name of an included task (parent task `<ns>:<task>`, second include keyed `<ns1>:<ns2>`, the colliding name flattened in from a sibling): a collision must be reported (EDup), never overwrite. "
             "R_vardir (monitor; every 10th tree in C08, every 6th in C09): a diamond whose shared file is included once in long form with dir: and once in short form and has dynamic (sh:) globals is loaded together with its twin in which the long-form includer is renamed (app.yml <-> zapp.yml, which flips the processing order of the siblings); with the file name normalised the two digests (directory stamped on every global / IncludedTaskfileVars variable, value of every dynamic variable in every task) must be equal. "
             "distinct = distinct file sets",
        assumptions=_COMMON_ASSUME + ["task names, namespaces and aliases are non-empty and do not start with ':' (wf_graph)"],
        trusted=_COMMON_TRUST,
    ),
    "C09": dict(
        src="Properties/C09.v", target="Properties/C09.vo",
        # statements about the tree as it is: the "flag is repaired" premises discharged against Extracted.Facts
        more_src=["Properties/C09Current.v"],
        support=["Merge/Model.vo", "Merge/Spec.vo"], run_targets=["Run/MergeCases.vo"],
        drivers=[dict(name="merge", extra="mode=c09", n_quick=80, n_thorough=1000, shard=10,
                      results={"R_read": "agree", "R_merge": "agree", "R_wf": "agree", "R_vardir": "mon", "R_listing": "mon", "R_c09_det": "mon", "R_c09_stable": "mon", "R_c09_place": "mon"})],
        signature=sig_c09,
        rule="a case = one generated include tree (3-5 files, mostly siblings of the root with overlapping variable and task names, diamonds, the same file twice) loaded 40 times by Executor.Setup in one process; "
             "each load is dumped canonically (task table in order with every field, vars, env, output, plus fast-compiled command lines and variable values, and the working directory stamped on every global variable). "
             "R_c09_det (monitor): all 40 dumps are identical; a dump includes the names, in printed order, of --list-all --json --no-status, --list-all --json, --list-all and --list --json (Executor.ListTasks as the CLI calls it). R_listing (monitor): each listing equals the function of the merged table stated in Merge/Spec.v (listed: keys sorted root-tasks-first then bytewise, internal tasks dropped, label or Task printed). R_c09_place: the C08 placement monitor on these trees. Every 12th tree: a file included several times with different dir: that has a nested long-form include without dir:. R_c09_stable (monitor of C09_partial): all dumps agree on the set of keys and, per origin, on commands, deps, dir, include vars and every attribute. R_merge: every distinct dump is one of the model's outcomes merge_all current_variant G pi sigma (pi over all topological orders, sigma over all edge orders). "
             "Every 3rd tree is directed: a file reached through two include statements passing different vars (the same file twice, diamond) has a nested include whose taskfile:/dir: is a template over a variable set by the include statements (not visible there: the default applies), by the environment, by the file's own globals or by the root's globals; the model predicts the resolved path (R_read) and the 40 loads must agree. Every 6th tree is a diamond whose shared file is included once in long form with dir: and once in short form and has dynamic (sh:) globals: the digest holds the directory stamped on every variable (globals and IncludedTaskfileVars) and the value every dynamic variable evaluates to per task. "
             "distinct = distinct file sets",
        assumptions=_COMMON_ASSUME,
        trusted=_COMMON_TRUST,
    ),
}
