// facts_remote.go: declarative facts about the remote-Taskfile code (model H, property C20).
// Everything is keyed on call names and conditions rendered by exprStr; an
// unrecognised shape is emitted as a value the obligations in
// coq/Remote/ProofsTie.v do not accept (fail closed).
package main

import (
	"fmt"
	"go/ast"
	"go/token"
	"path/filepath"
	"strconv"
	"strings"
)

func init() { moreFacts = append(moreFacts, factsRemote) }

func coqStr(s string) string { return "\"" + strings.ReplaceAll(s, "\"", "\"\"") + "\"" }

func coqPairs(ps [][2]string) string {
	if len(ps) == 0 {
		return "[]"
	}
	q := make([]string, len(ps))
	for i, p := range ps {
		q[i] = "(" + coqStr(p[0]) + ", " + p[1] + ")"
	}
	return "[" + strings.Join(q, "; ") + "]"
}

// returnsIdent: does the block contain `return <name>, nil`
func returnsIdent(b *ast.BlockStmt, name string) bool {
	hit := false
	ast.Inspect(b, func(n ast.Node) bool {
		if rs, ok := n.(*ast.ReturnStmt); ok && len(rs.Results) == 2 && exprStr(rs.Results[0]) == name && exprStr(rs.Results[1]) == "nil" {
			hit = true
		}
		return true
	})
	return hit
}

func mentions(n ast.Node, what string) bool {
	hit := false
	if n == nil {
		return false
	}
	ast.Inspect(n, func(x ast.Node) bool {
		switch t := x.(type) {
		case *ast.Ident:
			if t.Name == what {
				hit = true
			}
		case *ast.SelectorExpr:
			if t.Sel.Name == what {
				hit = true
			}
		}
		return true
	})
	return hit
}

// initCallPrefix: the init statement is `x := <prefix>...()`
func initCallPrefix(st ast.Stmt, prefix string) bool {
	as, ok := st.(*ast.AssignStmt)
	return ok && len(as.Rhs) == 1 && strings.HasPrefix(exprStr(as.Rhs[0]), prefix)
}

func factsRemote(repo string, o *out) {
	o.sb.WriteString("\n(* ---- remote Taskfiles (facts_remote.go) ---- *)\n")

	// 1. exit-code constants of errors/errors.go (iota blocks)
	ep := load(filepath.Join(repo, "errors"))
	var codes [][2]string
	if f := ep.files["errors.go"]; f != nil {
		for _, d := range f.Decls {
			gd, ok := d.(*ast.GenDecl)
			if !ok || gd.Tok != token.CONST {
				continue
			}
			base := -1
			for i, s := range gd.Specs {
				vs, ok := s.(*ast.ValueSpec)
				if !ok {
					continue
				}
				if len(vs.Values) == 1 {
					base = -1
					switch v := vs.Values[0].(type) {
					case *ast.Ident:
						if v.Name == "iota" {
							base = 0
						}
					case *ast.BinaryExpr:
						if x, ok := v.X.(*ast.Ident); ok && x.Name == "iota" && v.Op == token.ADD {
							if bl, ok := v.Y.(*ast.BasicLit); ok {
								if n, err := strconv.Atoi(bl.Value); err == nil {
									base = n
								}
							}
						}
					}
				}
				for _, n := range vs.Names {
					if base >= 0 && strings.HasPrefix(n.Name, "Code") {
						codes = append(codes, [2]string{n.Name, fmt.Sprintf("%d%%N", base+i)})
					}
				}
			}
		}
	}
	o.def("remote_code_consts", "list (string * N)", coqPairs(codes))

	// 2. which error type reports which constant (Code() methods)
	var codeOf [][2]string
	for _, fn := range sortedFiles(ep) {
		for _, d := range ep.files[fn].Decls {
			fd, ok := d.(*ast.FuncDecl)
			if !ok || fd.Name.Name != "Code" || fd.Recv == nil || len(fd.Recv.List) != 1 || fd.Body == nil || len(fd.Body.List) != 1 {
				continue
			}
			rs, ok := fd.Body.List[0].(*ast.ReturnStmt)
			if !ok || len(rs.Results) != 1 {
				continue
			}
			codeOf = append(codeOf, [2]string{typeName(fd.Recv.List[0].Type), coqStr(exprStr(rs.Results[0]))})
		}
	}
	o.def("remote_error_code_of", "list (string * string)", coqPairs(codeOf))

	// 3. readRemoteNodeContent
	tp := load(filepath.Join(repo, "taskfile"))
	var writeOrder, switchCases []string
	promptBeforeWrites := false
	promptErrNotTrusted := false
	fallbackCond := "?"
	fallbackKind := 99
	validExpr, expiryExpr := "?", "?"
	offlineNoCache, offlineExpired, validNoDownload := "?", "?", "?"
	if fd := tp.funcDecl("Reader", "readRemoteNodeContent"); fd != nil && fd.Body != nil {
		promptPos, firstWrite := token.NoPos, token.NoPos
		ast.Inspect(fd.Body, func(n ast.Node) bool {
			switch t := n.(type) {
			case *ast.CallExpr:
				s := exprStr(t.Fun)
				switch s {
				case "cache.WriteChecksum", "cache.WriteTimestamp", "cache.Write":
					writeOrder = append(writeOrder, strings.TrimPrefix(s, "cache."))
					if firstWrite == token.NoPos {
						firstWrite = t.Pos()
					}
				case "r.promptf":
					promptPos = t.Pos()
				}
			case *ast.AssignStmt:
				if len(t.Lhs) == 1 && len(t.Rhs) == 1 {
					switch exprStr(t.Lhs[0]) {
					case "cacheValid":
						validExpr = exprStr(t.Rhs[0])
					case "expiry":
						expiryExpr = exprStr(t.Rhs[0])
					}
				}
			}
			return true
		})
		promptBeforeWrites = promptPos != token.NoPos && firstWrite != token.NoPos && promptPos < firstWrite
		for idx, st := range fd.Body.List {
			switch t := st.(type) {
			case *ast.SwitchStmt:
				if t.Tag != nil {
					continue
				}
				for _, c := range t.Body.List {
					cc, ok := c.(*ast.CaseClause)
					if !ok {
						continue
					}
					name := "default"
					if len(cc.List) == 1 {
						name = exprStr(cc.List[0])
					}
					switchCases = append(switchCases, name)
					// the offline / download conditions inside each case
					for _, s := range cc.Body {
						if is, ok := s.(*ast.IfStmt); ok {
							c := exprStr(is.Cond)
							switch {
							case name == "errors.Is()" && mentions(is.Body, "TaskfileCacheNotFoundError"):
								offlineNoCache = c
							case name == "!cacheValid" && returnsIdent(is.Body, "cachedBytes"):
								offlineExpired = c
							case name == "default" && returnsIdent(is.Body, "cachedBytes"):
								validNoDownload = c
							}
						}
					}
				}
			case *ast.AssignStmt:
				if len(t.Rhs) == 1 && exprStr(t.Rhs[0]) == "node.ReadContext()" && idx+1 < len(fd.Body.List) {
					if is, ok := fd.Body.List[idx+1].(*ast.IfStmt); ok && exprStr(is.Cond) == "err!=nil" {
						for _, s := range is.Body.List {
							if in, ok := s.(*ast.IfStmt); ok && returnsIdent(in.Body, "cachedBytes") {
								fallbackCond = exprStr(in.Cond)
							}
						}
					}
				}
			case *ast.IfStmt:
				// the prompt block: its failure must be reported as "not trusted"
				if mentions(t.Body, "promptf") && mentions(t.Body, "TaskfileNotTrustedError") {
					promptErrNotTrusted = true
				}
			}
		}
		switch fallbackCond {
		case "ctx.Err()!=nil&&cacheFound", "cacheFound&&ctx.Err()!=nil":
			fallbackKind = 0
		case "cacheFound&&(ctx.Err()!=nil||isUnreachable())", "(ctx.Err()!=nil||isUnreachable())&&cacheFound":
			// the helper must be about fetch errors that carry no HTTP status
			if h := tp.funcDecl("", "isUnreachable"); h != nil && h.Body != nil &&
				mentions(h.Body, "TaskfileFetchFailedError") && mentions(h.Body, "HTTPStatusCode") {
				fallbackKind = 1
			}
		}
	}
	o.def("remote_write_order", "list string", coqStrList(writeOrder))
	o.def("remote_prompt_before_writes", "bool", fmt.Sprint(promptBeforeWrites))
	o.def("remote_prompt_error_is_not_trusted", "bool", fmt.Sprint(promptErrNotTrusted))
	o.def("remote_cache_switch", "list string", coqStrList(switchCases))
	o.def("remote_cache_conds", "list string", coqStrList([]string{offlineNoCache, offlineExpired, validNoDownload}))
	o.def("remote_cache_valid_expr", "list string", coqStrList([]string{expiryExpr, validExpr}))
	o.def("remote_fallback_cond", "string", coqStr(fallbackCond))
	o.def("remote_fallback_kind", "nat", fmt.Sprint(fallbackKind))

	// 4. ChecksumPrompt: the case conditions
	var promptCases []string
	if fd := tp.funcDecl("CacheNode", "ChecksumPrompt"); fd != nil && fd.Body != nil {
		ast.Inspect(fd.Body, func(n ast.Node) bool {
			if cc, ok := n.(*ast.CaseClause); ok {
				name := "default"
				if len(cc.List) == 1 {
					name = exprStr(cc.List[0])
				}
				ret := "?"
				for _, s := range cc.Body {
					if rs, ok := s.(*ast.ReturnStmt); ok && len(rs.Results) == 1 {
						ret = exprStr(rs.Results[0])
					}
				}
				promptCases = append(promptCases, name+" => "+ret)
			}
			return true
		})
	}
	o.def("remote_checksum_prompt", "list string", coqStrList(promptCases))

	// 5. NewHTTPNode: the condition guarding TaskfileNotSecureError
	httpCond := "?"
	if fd := tp.funcDecl("", "NewHTTPNode"); fd != nil && fd.Body != nil {
		for _, s := range fd.Body.List {
			if is, ok := s.(*ast.IfStmt); ok && mentions(is.Body, "TaskfileNotSecureError") {
				httpCond = exprStr(is.Cond)
			}
		}
	}
	o.def("remote_http_cond", "string", coqStr(httpCond))

	// 6. flags.Validate: the rejected flag combinations that involve the remote flags
	fp := load(filepath.Join(repo, "internal/flags"))
	var conflicts []string
	if fd := fp.funcDecl("", "Validate"); fd != nil && fd.Body != nil {
		for _, s := range fd.Body.List {
			if is, ok := s.(*ast.IfStmt); ok {
				c := exprStr(is.Cond)
				if strings.Contains(c, "Download") || strings.Contains(c, "Offline") || strings.Contains(c, "ClearCache") {
					conflicts = append(conflicts, c)
				}
			}
		}
	}
	o.def("remote_flag_conflicts", "list string", coqStrList(conflicts))

	// 7. cmd/task: Validate before Setup before the --clear-cache block
	cp := load(filepath.Join(repo, "cmd/task"))
	order := []string{}
	if fd := cp.funcDecl("", "run"); fd != nil && fd.Body != nil {
		for _, s := range fd.Body.List {
			is, ok := s.(*ast.IfStmt)
			if !ok {
				continue
			}
			switch {
			case is.Init != nil && mentions(is.Init, "Validate") && initCallPrefix(is.Init, "flags."):
				order = append(order, "flags.Validate")
			case is.Init != nil && mentions(is.Init, "Setup"):
				order = append(order, "Setup")
			case exprStr(is.Cond) == "flags.ClearCache" && mentions(is.Body, "RemoveAll"):
				order = append(order, "ClearCache")
			}
		}
	}
	o.def("remote_cli_order", "list string", coqStrList(order))

	// 8. Logger.Prompt: --yes first, then the terminal check
	lp := load(filepath.Join(repo, "internal/logger"))
	var promptConds []string
	if fd := lp.funcDecl("Logger", "Prompt"); fd != nil && fd.Body != nil {
		for _, s := range fd.Body.List {
			if is, ok := s.(*ast.IfStmt); ok {
				ret := "?"
				for _, b := range is.Body.List {
					if rs, ok := b.(*ast.ReturnStmt); ok && len(rs.Results) == 1 {
						ret = exprStr(rs.Results[0])
					}
				}
				promptConds = append(promptConds, exprStr(is.Cond)+" => "+ret)
			}
		}
	}
	o.def("remote_prompt_conds", "list string", coqStrList(promptConds))

	// 9. readTaskfile: a deadline becomes TaskfileNetworkTimeoutError
	rp := load(repo)
	timeoutMapped := false
	if fd := rp.funcDecl("Executor", "readTaskfile"); fd != nil && fd.Body != nil {
		ast.Inspect(fd.Body, func(n ast.Node) bool {
			if is, ok := n.(*ast.IfStmt); ok && mentions(is.Cond, "DeadlineExceeded") && mentions(is.Body, "TaskfileNetworkTimeoutError") {
				timeoutMapped = true
			}
			return true
		})
	}
	o.def("remote_deadline_is_network_timeout", "bool", fmt.Sprint(timeoutMapped))
}
