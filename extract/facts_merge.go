// Facts for model C "Merge" (C08, C09): struct field lists, the keys of the
// DeepCopy / compiledTask composite literals, and the shape of graph.Merge and
// of the reference renaming in Tasks.Merge.  Fails closed: an unknown shape is
// emitted as "?" / an empty list, which no obligation accepts.
package main

import (
	"go/ast"
	"path/filepath"
	"sort"
	"strings"
)

func init() { moreFacts = append(moreFacts, factsMerge) }

// structFields returns the field names of `type <name> struct`.
func (p *pkg) structFields(name string) []string {
	for _, fn := range sortedFiles(p) {
		for _, d := range p.files[fn].Decls {
			gd, ok := d.(*ast.GenDecl)
			if !ok {
				continue
			}
			for _, sp := range gd.Specs {
				ts, ok := sp.(*ast.TypeSpec)
				if !ok || ts.Name.Name != name {
					continue
				}
				st, ok := ts.Type.(*ast.StructType)
				if !ok {
					return nil
				}
				var out []string
				for _, f := range st.Fields.List {
					for _, n := range f.Names {
						out = append(out, n.Name)
					}
					if len(f.Names) == 0 {
						out = append(out, "embedded:"+typeName(f.Type))
					}
				}
				return out
			}
		}
	}
	return nil
}

// literalKeys returns the keys of the first composite literal of type <typ>
// (possibly qualified, e.g. ast.Task) inside the function body, plus every
// field assigned later through `<ident>.<Field> = ...` on the variable the
// literal was bound to (`c := &Task{..}` / `new := ast.Task{..}`).
func literalKeys(fd *ast.FuncDecl, typ string) []string {
	if fd == nil || fd.Body == nil {
		return nil
	}
	var keys []string
	seen := map[string]bool{}
	bound := ""
	found := false
	ast.Inspect(fd.Body, func(n ast.Node) bool {
		switch x := n.(type) {
		case *ast.AssignStmt:
			if !found && len(x.Lhs) == 1 && len(x.Rhs) == 1 {
				if cl := asLiteral(x.Rhs[0], typ); cl != nil {
					if id, ok := x.Lhs[0].(*ast.Ident); ok {
						bound = id.Name
					}
				}
			}
			if found && bound != "" {
				for _, l := range x.Lhs {
					if se, ok := l.(*ast.SelectorExpr); ok {
						if id, ok := se.X.(*ast.Ident); ok && id.Name == bound && !seen[se.Sel.Name] {
							seen[se.Sel.Name] = true
							keys = append(keys, se.Sel.Name)
						}
					}
				}
			}
		case *ast.CompositeLit:
			if found {
				return true
			}
			tn := typeName(x.Type)
			if tn == typ || strings.HasSuffix(tn, "."+typ) {
				found = true
				for _, e := range x.Elts {
					kv, ok := e.(*ast.KeyValueExpr)
					if !ok {
						keys = append(keys, "?positional")
						continue
					}
					if id, ok := kv.Key.(*ast.Ident); ok && !seen[id.Name] {
						seen[id.Name] = true
						keys = append(keys, id.Name)
					}
				}
			}
		}
		return true
	})
	return keys
}

func asLiteral(e ast.Expr, typ string) *ast.CompositeLit {
	if u, ok := e.(*ast.UnaryExpr); ok {
		e = u.X
	}
	cl, ok := e.(*ast.CompositeLit)
	if !ok {
		return nil
	}
	tn := typeName(cl.Type)
	if tn == typ || strings.HasSuffix(tn, "."+typ) {
		return cl
	}
	return nil
}

// calledNames lists (sorted, unique) the last selector / identifier of every call in the body.
func calledNames(fd *ast.FuncDecl) []string {
	if fd == nil || fd.Body == nil {
		return nil
	}
	set := map[string]bool{}
	ast.Inspect(fd.Body, func(n ast.Node) bool {
		if ce, ok := n.(*ast.CallExpr); ok {
			switch f := ce.Fun.(type) {
			case *ast.Ident:
				set[f.Name] = true
			case *ast.SelectorExpr:
				set[f.Sel.Name] = true
			case *ast.IndexExpr: // generic instantiation f[T](..)
				switch g := f.X.(type) {
				case *ast.Ident:
					set[g.Name] = true
				case *ast.SelectorExpr:
					set[g.Sel.Name] = true
				}
			}
		}
		return true
	})
	var out []string
	for k := range set {
		out = append(out, k)
	}
	sort.Strings(out)
	return out
}

// refRenameFn: the function whose result is assigned to `dep.Task` and to `cmd.Task` in Tasks.Merge.
func refRenameFn(fd *ast.FuncDecl) string {
	if fd == nil || fd.Body == nil {
		return "?"
	}
	got := map[string]string{}
	ast.Inspect(fd.Body, func(n ast.Node) bool {
		as, ok := n.(*ast.AssignStmt)
		if !ok || len(as.Lhs) != 1 || len(as.Rhs) != 1 {
			return true
		}
		l := exprStr(as.Lhs[0])
		if l != "dep.Task" && l != "cmd.Task" {
			return true
		}
		name := "?"
		if ce, ok := as.Rhs[0].(*ast.CallExpr); ok {
			if id, ok := ce.Fun.(*ast.Ident); ok {
				name = id.Name
			}
		}
		if old, ok := got[l]; ok && old != name {
			name = "?"
		}
		got[l] = name
		return true
	})
	d, ok1 := got["dep.Task"]
	c, ok2 := got["cmd.Task"]
	if !ok1 || !ok2 || d != c {
		return "?"
	}
	return d
}

// varsMergeDirInplace inspects (*Vars).Merge: the statement that assigns `<x>.Dir = include.Dir`.
// "true": x is rooted at the loop variable that points into the OTHER map (pair.Value.Dir): the included
// Taskfile's variable is modified in place; "false": x is a local variable initialised from
// <loopvar>.Value and that same local is what Set stores; "?": anything else.
func varsMergeDirInplace(fd *ast.FuncDecl) (string, string) {
	if fd == nil || fd.Body == nil {
		return "?", "?"
	}
	result, lhsText := "?", "?"
	ast.Inspect(fd.Body, func(n ast.Node) bool {
		fs, ok := n.(*ast.ForStmt)
		if !ok {
			return true
		}
		loopVar := ""
		if as, ok := fs.Init.(*ast.AssignStmt); ok && len(as.Lhs) == 1 {
			if id, ok := as.Lhs[0].(*ast.Ident); ok {
				loopVar = id.Name
			}
		}
		if loopVar == "" {
			return true
		}
		copies := map[string]bool{} // locals initialised from <loopVar>.Value
		var dirRoot string
		stored := ""
		nDir := 0
		ast.Inspect(fs.Body, func(m ast.Node) bool {
			switch x := m.(type) {
			case *ast.AssignStmt:
				if len(x.Lhs) == 1 && len(x.Rhs) == 1 {
					if id, ok := x.Lhs[0].(*ast.Ident); ok && exprStr(x.Rhs[0]) == loopVar+".Value" {
						copies[id.Name] = true
					}
					if se, ok := x.Lhs[0].(*ast.SelectorExpr); ok && se.Sel.Name == "Dir" {
						nDir++
						lhsText = exprStr(x.Lhs[0])
						root := se.X
						for {
							if s2, ok := root.(*ast.SelectorExpr); ok {
								root = s2.X
								continue
							}
							break
						}
						if id, ok := root.(*ast.Ident); ok {
							dirRoot = id.Name
						}
					}
				}
			case *ast.CallExpr:
				if se, ok := x.Fun.(*ast.SelectorExpr); ok && se.Sel.Name == "Set" && len(x.Args) == 2 {
					stored = exprStr(x.Args[1])
				}
			}
			return true
		})
		switch {
		case nDir != 1:
			result = "?"
		case dirRoot == loopVar:
			result = "true"
		case copies[dirRoot] && stored == dirRoot:
			result = "false"
		default:
			result = "?"
		}
		return false
	})
	return result, lhsText
}

func factsMerge(repo string, o *out) {
	p := load(filepath.Join(repo, "taskfile/ast"))
	root := load(repo)

	o.def("task_fields", "list string", coqStrList(p.structFields("Task")))
	o.def("task_deepcopy_fields", "list string", coqStrList(literalKeys(p.funcDecl("Task", "DeepCopy"), "Task")))
	o.def("cmd_fields", "list string", coqStrList(p.structFields("Cmd")))
	o.def("cmd_deepcopy_fields", "list string", coqStrList(literalKeys(p.funcDecl("Cmd", "DeepCopy"), "Cmd")))
	o.def("dep_fields", "list string", coqStrList(p.structFields("Dep")))
	o.def("dep_deepcopy_fields", "list string", coqStrList(literalKeys(p.funcDecl("Dep", "DeepCopy"), "Dep")))
	o.def("compiled_task_fields", "list string", coqStrList(literalKeys(root.funcDecl("Executor", "compiledTask"), "Task")))

	// graph.Merge: which functions it calls (TopologicalSort vs StableTopologicalSort; PredecessorMap vs AdjacencyMap ...)
	gm := p.funcDecl("TaskfileGraph", "Merge")
	o.def("graph_merge_calls", "list string", coqStrList(calledNames(gm)))

	// Tasks.Merge: the function renaming deps / cmd targets, and whether it trims the ':' itself
	tm := p.funcDecl("Tasks", "Merge")
	fn := refRenameFn(tm)
	o.def("tasks_merge_ref_fn", "string", "\""+fn+"\"")
	trims := "?"
	if fd := p.funcDecl("", fn); fd != nil {
		trims = "false"
		for _, n := range calledNames(fd) {
			if n == "TrimPrefix" || n == "CutPrefix" {
				trims = "true"
			}
		}
	}
	o.def("tasks_merge_ref_fn_trims", "string", "\""+trims+"\"")
	o.def("tasks_merge_calls", "list string", coqStrList(calledNames(tm)))

	// Vars.Merge: is include.Dir written into the included Taskfile's variable or into a copy
	inpl, lhs := varsMergeDirInplace(p.funcDecl("Vars", "Merge"))
	o.def("vars_merge_dir_inplace", "string", "\""+inpl+"\"")
	o.def("vars_merge_dir_lhs", "string", "\""+lhs+"\"")
}
