package main

import (
	"go/ast"
	"go/token"
	"path/filepath"
	"strings"
)

func init() { moreFacts = append(moreFacts, factsExec) }

// anchors whose first occurrence (in source order, with block nesting of the
// skipFingerprinting guard) defines the stage pipeline of RunTask
var runTaskAnchors = []string{
	"FastCompiledTask", "shouldRunOnCurrentPlatform", "areTaskRequiredVarsSet", "CompiledTask",
	"areTaskRequiredVarsAllowedValuesSet", "AddInt32", "acquireConcurrencyLimit", "startExecution",
	"runDeps", "Err", "areTaskPreconditionsMet", "IsTaskUpToDate", "Prompt", "mkdir", "runCommand", "runDeferred",
}

func callName(ce *ast.CallExpr) string {
	switch f := ce.Fun.(type) {
	case *ast.Ident:
		return f.Name
	case *ast.SelectorExpr:
		return f.Sel.Name
	}
	return ""
}

func factsExec(repo string, o *out) {
	p := load(repo)
	// MaximumTaskCall
	max := "0"
	for _, fn := range sortedFiles(p) {
		for _, d := range p.files[fn].Decls {
			gd, ok := d.(*ast.GenDecl)
			if !ok || gd.Tok != token.CONST {
				continue
			}
			for _, sp := range gd.Specs {
				vs := sp.(*ast.ValueSpec)
				for i, n := range vs.Names {
					if n.Name == "MaximumTaskCall" && i < len(vs.Values) {
						if bl, ok := vs.Values[i].(*ast.BasicLit); ok {
							max = bl.Value
						}
					}
				}
			}
		}
	}
	o.def("maximum_task_call", "nat", max)

	// stage order of RunTask: first occurrence of each anchor; anchors inside an
	// `if !skipFingerprinting { ... }` block are prefixed with "fp:"
	var stages []string
	seen := map[string]bool{}
	if fd := p.funcDecl("Executor", "RunTask"); fd != nil && fd.Body != nil {
		var walk func(n ast.Node, inFP bool)
		walk = func(n ast.Node, inFP bool) {
			ast.Inspect(n, func(nd ast.Node) bool {
				if nd == nil {
					return false
				}
				if is, ok := nd.(*ast.IfStmt); ok {
					if strings.Contains(exprStr(is.Cond), "skipFingerprinting") {
						if is.Init != nil {
							walk(is.Init, inFP)
						}
						walk(is.Body, true)
						if is.Else != nil {
							walk(is.Else, inFP)
						}
						return false
					}
				}
				if ce, ok := nd.(*ast.CallExpr); ok {
					nm := callName(ce)
					for _, a := range runTaskAnchors {
						if a == nm && !seen[a] {
							// "Err" only counts as ctx.Err()
							if a == "Err" && !strings.HasSuffix(exprStr(ce.Fun), "ctx.Err") {
								continue
							}
							seen[a] = true
							if inFP {
								stages = append(stages, "fp:"+a)
							} else {
								stages = append(stages, a)
							}
						}
					}
				}
				return true
			})
		}
		walk(fd.Body, false)
	}
	o.def("runtask_stages", "list string", coqStrList(stages))

	// GetHash: run mode -> hash function
	var hs []string
	if fd := p.funcDecl("Executor", "GetHash"); fd != nil && fd.Body != nil {
		ast.Inspect(fd.Body, func(nd ast.Node) bool {
			cc, ok := nd.(*ast.CaseClause)
			if !ok || len(cc.List) != 1 || len(cc.Body) != 1 {
				return true
			}
			bl, ok := cc.List[0].(*ast.BasicLit)
			as, ok2 := cc.Body[0].(*ast.AssignStmt)
			if ok && ok2 && len(as.Rhs) == 1 {
				hs = append(hs, strings.Trim(bl.Value, `"`)+"="+exprStr(as.Rhs[0]))
			}
			return true
		})
	}
	o.def("gethash_switch", "list string", coqStrList(hs))

	// startExecution: does a later caller return the first execution's error, and does it wait on completion
	waitsDone, returnsErr := false, false
	if fd := p.funcDecl("Executor", "startExecution"); fd != nil && fd.Body != nil {
		ast.Inspect(fd.Body, func(nd ast.Node) bool {
			if ue, ok := nd.(*ast.UnaryExpr); ok && ue.Op == token.ARROW {
				if strings.HasSuffix(exprStr(ue.X), ".done") {
					waitsDone = true
				}
			}
			if rs, ok := nd.(*ast.ReturnStmt); ok && len(rs.Results) == 1 {
				if strings.HasSuffix(exprStr(rs.Results[0]), ".err") {
					returnsErr = true
				}
			}
			return true
		})
	}
	o.def("dedup_waits_completion", "bool", boolStr(waitsDone))
	o.def("dedup_returns_error", "bool", boolStr(returnsErr))

	// runDeps: deps error wrapped for direct calls
	wraps := false
	if fd := p.funcDecl("Executor", "RunTask"); fd != nil && fd.Body != nil {
		ast.Inspect(fd.Body, func(nd ast.Node) bool {
			is, ok := nd.(*ast.IfStmt)
			if !ok || is.Init == nil {
				return true
			}
			as, ok := is.Init.(*ast.AssignStmt)
			if !ok || len(as.Rhs) != 1 {
				return true
			}
			ce, ok := as.Rhs[0].(*ast.CallExpr)
			if !ok || callName(ce) != "runDeps" {
				return true
			}
			ast.Inspect(is.Body, func(n2 ast.Node) bool {
				if cl, ok := n2.(*ast.CompositeLit); ok && strings.HasSuffix(typeName(cl.Type), "TaskRunError") {
					wraps = true
				}
				return true
			})
			return true
		})
	}
	o.def("deps_error_wrapped", "bool", boolStr(wraps))

	// runDeferred templates the task name and vars of a deferred call
	tplTask, tplVars := false, false
	if fd := p.funcDecl("Executor", "runDeferred"); fd != nil && fd.Body != nil {
		ast.Inspect(fd.Body, func(nd ast.Node) bool {
			if as, ok := nd.(*ast.AssignStmt); ok && len(as.Lhs) == 1 {
				switch exprStr(as.Lhs[0]) {
				case "cmd.Task":
					tplTask = true
				case "cmd.Vars":
					tplVars = true
				}
			}
			return true
		})
	}
	o.def("deferred_call_templated", "bool", boolStr(tplTask && tplVars))
	_ = filepath.Join
}

func boolStr(b bool) string {
	if b {
		return "true"
	}
	return "false"
}
