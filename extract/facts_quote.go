// Facts for model G "Quote" (property C19): how cmd/task stores CLI_ARGS, where
// --init takes its path from, the SplitN limit of splitVar, whether the templater
// strips "<no value>", whether command-line values are stored as template text.
// Fails closed: an unrecognised shape is emitted as code 99, which no obligation accepts.
package main

import (
	"go/ast"
	"go/token"
	"path/filepath"
	"strconv"
	"strings"
)

func init() { moreFacts = append(moreFacts, factsQuote) }

// isLiteralWrap recognises a call f(x) / pkg.f(x) whose name says the value is protected
// from the template engine (…Literal / Escape…); returns the wrapped expression.
func isLiteralWrap(e ast.Expr) (ast.Expr, bool) {
	ce, ok := e.(*ast.CallExpr)
	if !ok || len(ce.Args) != 1 {
		return e, false
	}
	name := exprStr(ce.Fun)
	if i := strings.LastIndex(name, "."); i >= 0 {
		name = name[i+1:]
	}
	l := strings.ToLower(name)
	if strings.Contains(l, "literal") || strings.Contains(l, "escapetemplate") {
		return ce.Args[0], true
	}
	return e, false
}

func isCall(e ast.Expr, fun string) (*ast.CallExpr, bool) {
	ce, ok := e.(*ast.CallExpr)
	if !ok || exprStr(ce.Fun) != fun {
		return nil, false
	}
	return ce, true
}

// varValueExpr finds the Value: field of an ast.Var{...} composite literal.
func varValueExpr(e ast.Expr) ast.Expr {
	cl, ok := e.(*ast.CompositeLit)
	if !ok || exprStr(cl.Type) != "ast.Var" {
		return nil
	}
	for _, el := range cl.Elts {
		if kv, ok := el.(*ast.KeyValueExpr); ok && exprStr(kv.Key) == "Value" {
			return kv.Value
		}
	}
	return nil
}

// resultTypes of func name in package p, as source text ("string", "[]string", ...).
func resultTypes(p *pkg, name string) []string {
	fd := p.funcDecl("", name)
	if fd == nil || fd.Type.Results == nil {
		return nil
	}
	var out []string
	for _, f := range fd.Type.Results.List {
		t := "?"
		switch x := f.Type.(type) {
		case *ast.Ident:
			t = x.Name
		case *ast.ArrayType:
			if x.Len == nil {
				t = "[]" + exprStr(x.Elt)
			}
		}
		n := len(f.Names)
		if n == 0 {
			n = 1
		}
		for i := 0; i < n; i++ {
			out = append(out, t)
		}
	}
	return out
}

// lhsIndexOfGet: in body, the statement `a, b, err := args.Get()`; returns the position of ident name on its left side.
func lhsIndexOfGet(body ast.Node, name string) int {
	idx := -1
	ast.Inspect(body, func(nd ast.Node) bool {
		as, ok := nd.(*ast.AssignStmt)
		if !ok || len(as.Rhs) != 1 {
			return true
		}
		if _, ok := isCall(as.Rhs[0], "args.Get"); !ok {
			return true
		}
		for i, l := range as.Lhs {
			if id, ok := l.(*ast.Ident); ok && id.Name == name && idx == -1 {
				idx = i
			}
		}
		return true
	})
	return idx
}

func factsQuote(repo string, o *out) {
	cmd := load(filepath.Join(repo, "cmd/task"))
	argsP := load(filepath.Join(repo, "args"))
	tmplP := load(filepath.Join(repo, "internal/templater"))
	fpe := load(filepath.Join(repo, "internal/filepathext"))

	getRes := resultTypes(argsP, "Get")

	// --- CLI_ARGS ---
	kind := 99        // 0 = joined string, 1 = []string
	cliLiteral := 99  // 0 = stored as template text, 1 = protected
	run := cmd.funcDecl("", "run")
	if run != nil && run.Body != nil {
		ast.Inspect(run.Body, func(nd ast.Node) bool {
			ce, ok := nd.(*ast.CallExpr)
			if !ok || len(ce.Args) != 2 || !strings.HasSuffix(exprStr(ce.Fun), ".Set") {
				return true
			}
			bl, ok := ce.Args[0].(*ast.BasicLit)
			if !ok || bl.Kind != token.STRING || bl.Value != `"CLI_ARGS"` {
				return true
			}
			v := varValueExpr(ce.Args[1])
			if v == nil {
				return true
			}
			inner, lit := isLiteralWrap(v)
			if lit {
				cliLiteral = 1
			} else {
				cliLiteral = 0
			}
			if j, ok := isCall(inner, "strings.Join"); ok && len(j.Args) == 2 {
				if s, ok := j.Args[1].(*ast.BasicLit); ok && s.Value == `" "` {
					kind = 0
				}
				return true
			}
			if id, ok := inner.(*ast.Ident); ok {
				i := lhsIndexOfGet(run.Body, id.Name)
				if i >= 0 && i < len(getRes) {
					switch getRes[i] {
					case "string":
						// args.Get itself must join with a blank
						if joinsWithBlank(argsP) {
							kind = 0
						}
					case "[]string":
						kind = 1
					}
				}
			}
			return true
		})
	}
	o.def("cli_args_kind_code", "nat", strconv.Itoa(kind))
	o.def("cli_args_literal_code", "nat", strconv.Itoa(cliLiteral))

	// --- --init: which result of args.Get is indexed [0] inside `if flags.Init {…}` ---
	initRes := 99
	if run != nil && run.Body != nil {
		for _, st := range run.Body.List {
			is, ok := st.(*ast.IfStmt)
			if !ok || exprStr(is.Cond) != "flags.Init" {
				continue
			}
			name := ""
			ast.Inspect(is.Body, func(nd ast.Node) bool {
				ie, ok := nd.(*ast.IndexExpr)
				if !ok {
					return true
				}
				if bl, ok := ie.Index.(*ast.BasicLit); ok && bl.Value == "0" {
					if id, ok := ie.X.(*ast.Ident); ok && name == "" {
						name = id.Name
					}
				}
				return true
			})
			if name != "" {
				if i := lhsIndexOfGet(is.Body, name); i == 0 || i == 1 {
					initRes = i
				}
			}
		}
	}
	o.def("init_args_get_result", "nat", strconv.Itoa(initRes))

	// --- splitVar: strings.SplitN(s, "=", n) ---
	limit, sep := 99, "?"
	if fd := argsP.funcDecl("", "splitVar"); fd != nil && fd.Body != nil {
		ast.Inspect(fd.Body, func(nd ast.Node) bool {
			if ce, ok := nd.(*ast.CallExpr); ok && exprStr(ce.Fun) == "strings.SplitN" && len(ce.Args) == 3 {
				if s, ok := ce.Args[1].(*ast.BasicLit); ok && s.Kind == token.STRING {
					if u, err := strconv.Unquote(s.Value); err == nil {
						sep = u
					}
				}
				if n, ok := ce.Args[2].(*ast.BasicLit); ok && n.Kind == token.INT {
					if k, err := strconv.Atoi(n.Value); err == nil && k >= 0 && k < 99 {
						limit = k
					}
				}
			}
			return true
		})
	}
	o.def("splitvar_limit", "nat", strconv.Itoa(limit))
	o.def("splitvar_sep", "string", "\""+strings.ReplaceAll(sep, "\"", "\"\"")+"\"")

	// NAME=value: is the value stored as template text
	varLiteral := 99
	if fd := argsP.funcDecl("", "Parse"); fd != nil && fd.Body != nil {
		ast.Inspect(fd.Body, func(nd ast.Node) bool {
			ce, ok := nd.(*ast.CallExpr)
			if !ok || len(ce.Args) != 2 || !strings.HasSuffix(exprStr(ce.Fun), ".Set") {
				return true
			}
			v := varValueExpr(ce.Args[1])
			if v == nil {
				return true
			}
			if _, lit := isLiteralWrap(v); lit {
				varLiteral = 1
			} else if _, ok := v.(*ast.Ident); ok {
				varLiteral = 0
			}
			return true
		})
	}
	o.def("cli_vars_literal_code", "nat", strconv.Itoa(varLiteral))

	// --- templater: strings.ReplaceAll(…, "<no value>", "") on rendered text ---
	strips := false
	for _, fn := range sortedFiles(tmplP) {
		ast.Inspect(tmplP.files[fn], func(nd ast.Node) bool {
			if ce, ok := nd.(*ast.CallExpr); ok && exprStr(ce.Fun) == "strings.ReplaceAll" && len(ce.Args) == 3 {
				if s, ok := ce.Args[1].(*ast.BasicLit); ok && s.Value == `"<no value>"` {
					strips = true
				}
			}
			return true
		})
	}
	if len(tmplP.files) == 0 {
		strips = true
	}
	o.def("templater_strips_no_value", "bool", strconv.FormatBool(strips))

	// --- filepathext.IsExtOnly: 0 = Base(path) == Ext(path) only, 1 = additionally excludes "." ---
	extOnly := 99
	if fd := fpe.funcDecl("", "IsExtOnly"); fd != nil && fd.Body != nil {
		cmpBaseExt, mentionsDot := false, false
		ast.Inspect(fd.Body, func(nd ast.Node) bool {
			switch x := nd.(type) {
			case *ast.BinaryExpr:
				if x.Op == token.EQL {
					a, b := exprStr(x.X), exprStr(x.Y)
					if (strings.Contains(a, "Base") || strings.Contains(a, "base")) && strings.Contains(b, "filepath.Ext") {
						cmpBaseExt = true
					}
				}
			case *ast.BasicLit:
				if x.Value == `"."` {
					mentionsDot = true
				}
			}
			return true
		})
		if cmpBaseExt && !mentionsDot {
			extOnly = 0
		} else if cmpBaseExt && mentionsDot {
			extOnly = 1
		}
	}
	o.def("isextonly_code", "nat", strconv.Itoa(extOnly))
}

// joinsWithBlank: args.Get contains strings.Join(…, " ")
func joinsWithBlank(p *pkg) bool {
	fd := p.funcDecl("", "Get")
	found := false
	if fd != nil && fd.Body != nil {
		ast.Inspect(fd.Body, func(nd ast.Node) bool {
			if ce, ok := nd.(*ast.CallExpr); ok && exprStr(ce.Fun) == "strings.Join" && len(ce.Args) == 2 {
				if s, ok := ce.Args[1].(*ast.BasicLit); ok && s.Value == `" "` {
					found = true
				}
			}
			return true
		})
	}
	return found
}
