package main

// Facts for model I "Decode" (C16): for every place where go-task's own code can
// panic on a decoded Taskfile, is the guard there?  0 = no guard, 1 = guarded,
// 99 = the function no longer has a shape this extractor recognises (no obligation
// accepts 99).  Plus the table of exit-code constants of errors/errors.go.

import (
	"bytes"
	"fmt"
	"go/ast"
	"go/printer"
	"go/token"
	"path/filepath"
	"strconv"
	"strings"
)

func init() { moreFacts = append(moreFacts, factsDecode) }

func srcText(n ast.Node) string {
	var b bytes.Buffer
	_ = printer.Fprint(&b, fset, n)
	return b.String()
}

// comparesWithNil: does the subtree hold `name == nil` or `name != nil`
func comparesWithNil(n ast.Node, name string) bool {
	found := false
	ast.Inspect(n, func(x ast.Node) bool {
		be, ok := x.(*ast.BinaryExpr)
		if !ok || (be.Op != token.EQL && be.Op != token.NEQ) {
			return true
		}
		l, r := exprStr(be.X), exprStr(be.Y)
		if (l == name && r == "nil") || (r == name && l == "nil") {
			found = true
		}
		return true
	})
	return found
}

// rangeNilGuard looks at the first `for _, x := range <expr ending in suffix>` of the
// function: 1 when its body compares x with nil, 0 when it does not, 99 when there is no such loop.
func rangeNilGuard(fd *ast.FuncDecl, suffix string) int {
	if fd == nil || fd.Body == nil {
		return 99
	}
	res := 99
	ast.Inspect(fd.Body, func(x ast.Node) bool {
		rs, ok := x.(*ast.RangeStmt)
		if !ok || res != 99 {
			return true
		}
		if !strings.HasSuffix(exprStr(rs.X), suffix) {
			return true
		}
		v, ok := rs.Value.(*ast.Ident)
		if !ok {
			return true
		}
		if comparesWithNil(rs.Body, v.Name) {
			res = 1
		} else {
			res = 0
		}
		return true
	})
	return res
}

func callsTo(fd *ast.FuncDecl, name string) int {
	n := 0
	if fd == nil || fd.Body == nil {
		return 0
	}
	ast.Inspect(fd.Body, func(x ast.Node) bool {
		if ce, ok := x.(*ast.CallExpr); ok && exprStr(ce.Fun) == name {
			n++
		}
		return true
	})
	return n
}

func factsDecode(repo string, o *out) {
	astp := load(filepath.Join(repo, "taskfile/ast"))
	tfp := load(filepath.Join(repo, "taskfile"))
	root := load(repo)
	tpl := load(filepath.Join(repo, "internal/templater"))
	dcp := load(filepath.Join(repo, "internal/deepcopy"))
	errp := load(filepath.Join(repo, "errors"))

	// --- ast/var.go: node.Content[0] ---
	varLen := 99
	if fd := astp.funcDecl("Var", "UnmarshalYAML"); fd != nil && fd.Body != nil {
		indexes := false
		ast.Inspect(fd.Body, func(x ast.Node) bool {
			if ie, ok := x.(*ast.IndexExpr); ok && strings.HasSuffix(exprStr(ie.X), ".Content") {
				indexes = true
			}
			return true
		})
		lenChecked := false
		ast.Inspect(fd.Body, func(x ast.Node) bool {
			if ce, ok := x.(*ast.CallExpr); ok && exprStr(ce.Fun) == "len" && len(ce.Args) == 1 && strings.HasSuffix(exprStr(ce.Args[0]), ".Content") {
				lenChecked = true
			}
			return true
		})
		switch {
		case !indexes, lenChecked:
			varLen = 1
		default:
			varLen = 0
		}
	}
	o.def("decode_var_len_check", "nat", fmt.Sprint(varLen))

	// --- pointer-slice consumers ---
	o.def("decode_glob_nil_check", "nat", fmt.Sprint(rangeNilGuard(tpl.funcDecl("", "ReplaceGlobs"), "globs")))
	o.def("decode_platform_nil_check", "nat", fmt.Sprint(rangeNilGuard(root.funcDecl("", "shouldRunOnCurrentPlatform"), "platforms")))
	r1 := rangeNilGuard(root.funcDecl("Executor", "areTaskRequiredVarsSet"), "Requires.Vars")
	r2 := rangeNilGuard(root.funcDecl("Executor", "areTaskRequiredVarsAllowedValuesSet"), "Requires.Vars")
	req := 0
	switch {
	case r1 == 99 || r2 == 99:
		req = 99
	case r1 == 1 && r2 == 1:
		req = 1
	}
	o.def("decode_requires_nil_check", "nat", fmt.Sprint(req))

	// --- taskfile/snippet.go: NewSnippet ---
	snip := 99
	if fd := tfp.funcDecl("", "NewSnippet"); fd != nil && fd.Body != nil {
		endHL, startEnd, seen := false, false, false
		ast.Inspect(fd.Body, func(x ast.Node) bool {
			as, ok := x.(*ast.AssignStmt)
			if !ok || len(as.Lhs) != 1 || len(as.Rhs) != 1 {
				return true
			}
			lhs, rhs := exprStr(as.Lhs[0]), srcText(as.Rhs[0])
			switch {
			case strings.HasSuffix(lhs, ".end"):
				seen = true
				if strings.Contains(rhs, "linesHighlighted") {
					endHL = true
				}
			case strings.HasSuffix(lhs, ".start"):
				seen = true
				if strings.Contains(rhs, ".end") {
					startEnd = true
				}
			}
			return true
		})
		switch {
		case seen && endHL && startEnd:
			snip = 1
		case seen && !endHL && !startEnd:
			snip = 0
		}
	}
	o.def("decode_snippet_clamp", "nat", fmt.Sprint(snip))

	// --- taskfile/node_git.go: NewGitNode, x[1] of the split ---
	git := 99
	if fd := tfp.funcDecl("", "NewGitNode"); fd != nil && fd.Body != nil {
		idx1 := false
		ast.Inspect(fd.Body, func(x ast.Node) bool {
			if ie, ok := x.(*ast.IndexExpr); ok {
				if bl, ok := ie.Index.(*ast.BasicLit); ok && bl.Value == "1" {
					idx1 = true
				}
			}
			return true
		})
		if !idx1 || callsTo(fd, "len") > 0 {
			git = 1
		} else {
			git = 0
		}
	}
	o.def("decode_git_len_check", "nat", fmt.Sprint(git))

	// --- ast/task.go: WildcardMatch ---
	wq, wm := 99, 99
	if fd := astp.funcDecl("Task", "WildcardMatch"); fd != nil && fd.Body != nil {
		wq = 0
		if callsTo(fd, "regexp.QuoteMeta") > 0 {
			wq = 1
		}
		switch {
		case callsTo(fd, "regexp.MustCompile") > 0:
			wm = 1
		case callsTo(fd, "regexp.Compile") > 0:
			wm = 0
		}
	}
	o.def("decode_wildcard_quotemeta", "nat", fmt.Sprint(wq))
	o.def("decode_wildcard_mustcompile", "nat", fmt.Sprint(wm))

	// --- internal/deepcopy ---
	trav := 99
	if fd := dcp.funcDecl("", "TraverseStringsFunc"); fd != nil && fd.Body != nil {
		t := srcText(fd.Body)
		if strings.Contains(t, "IsExported") || strings.Contains(t, "CanSet") || strings.Contains(t, "PkgPath") || strings.Contains(t, "time.Time") {
			trav = 1
		} else {
			trav = 0
		}
	}
	o.def("decode_traverse_struct_check", "nat", fmt.Sprint(trav))
	om := 99
	if fd := dcp.funcDecl("", "OrderedMap"); fd != nil && fd.Body != nil && fd.Type.Params != nil && len(fd.Type.Params.List) > 0 && len(fd.Type.Params.List[0].Names) > 0 {
		if comparesWithNil(fd.Body, fd.Type.Params.List[0].Names[0].Name) {
			om = 1
		} else {
			om = 0
		}
	}
	o.def("decode_omap_nil_check", "nat", fmt.Sprint(om))

	// --- DeepCopy methods of the element types of the pointer slices of ast.Task ---
	// deepcopy.Slice calls DeepCopy on every element that has the method, nil ones included.
	dcNil := 1
	for _, tn := range []string{"Cmd", "Dep", "Glob", "Precondition", "Platform", "VarsWithValidation"} {
		fd := astp.funcDecl(tn, "DeepCopy")
		if fd == nil {
			continue // no method: the pointer is copied as it is
		}
		if fd.Body == nil || fd.Recv == nil || len(fd.Recv.List) != 1 || len(fd.Recv.List[0].Names) != 1 {
			dcNil = 99
			break
		}
		if !comparesWithNil(fd.Body, fd.Recv.List[0].Names[0].Name) {
			dcNil = 0
		}
	}
	o.def("decode_deepcopy_nil_check", "nat", fmt.Sprint(dcNil))

	// --- internal/execext: ExpandLiteral indexes words[0] ---
	exl := 99
	if fd := load(filepath.Join(repo, "internal/execext")).funcDecl("", "ExpandLiteral"); fd != nil && fd.Body != nil {
		idx0 := ""
		ast.Inspect(fd.Body, func(x ast.Node) bool {
			if ie, ok := x.(*ast.IndexExpr); ok {
				if bl, ok := ie.Index.(*ast.BasicLit); ok && bl.Value == "0" {
					idx0 = exprStr(ie.X)
				}
			}
			return true
		})
		lenChecked := false
		ast.Inspect(fd.Body, func(x ast.Node) bool {
			if ce, ok := x.(*ast.CallExpr); ok && exprStr(ce.Fun) == "len" && len(ce.Args) == 1 && exprStr(ce.Args[0]) == idx0 {
				lenChecked = true
			}
			return true
		})
		if idx0 == "" || lenChecked {
			exl = 1
		} else {
			exl = 0
		}
	}
	o.def("decode_expand_literal_len_check", "nat", fmt.Sprint(exl))

	// --- errors/errors.go: the exit-code constants ---
	var codes []string
	if f, ok := errp.files["errors.go"]; ok {
		for _, d := range f.Decls {
			gd, ok := d.(*ast.GenDecl)
			if !ok || gd.Tok != token.CONST {
				continue
			}
			base, have := 0, false
			for i, sp := range gd.Specs {
				vs, ok := sp.(*ast.ValueSpec)
				if !ok {
					continue
				}
				if len(vs.Values) == 1 {
					have = false
					switch t := vs.Values[0].(type) {
					case *ast.Ident:
						if t.Name == "iota" {
							base, have = 0, true
						}
					case *ast.BinaryExpr:
						if id, ok := t.X.(*ast.Ident); ok && id.Name == "iota" && t.Op == token.ADD {
							if bl, ok := t.Y.(*ast.BasicLit); ok {
								if n, err := strconv.Atoi(bl.Value); err == nil {
									base, have = n, true
								}
							}
						}
					}
				}
				if !have {
					continue
				}
				for _, nm := range vs.Names {
					if strings.HasPrefix(nm.Name, "Code") {
						codes = append(codes, fmt.Sprintf("(\"%s\", %d%%N)", nm.Name, base+i))
					}
				}
			}
		}
	}
	val := "[]"
	if len(codes) > 0 {
		val = "[" + strings.Join(codes, "; ") + "]"
	}
	o.def("decode_exit_codes", "list (string * N)", val)
}
