// Facts for the for-loop expansion model (C02, coq/Exec/ForLoop.v): the loop
// nests of product, of the cmds / deps loops of compiledTask, of
// resolveMatrixRefs, and where itemsFromFor takes its items from (variables.go).
//
// A function body is printed as a "skeleton": one token per statement that
// matters for ORDER, prefixed with its nesting depth (every enclosing
// for / if / switch-case counts one).  Loop headers (`range`), `continue`,
// `break`, `goto`, labels and calls of anything that looks like a reordering
// (sort.*, slices.Sort*, slices.Reverse ...) are always printed; other
// statements only when the per-function filter selects them; an `if` / `case`
// header only when something below it is printed.  Expressions are printed
// with go/printer (canonical source text), so swapping two loops, iterating
// over something else, appending elsewhere, prepending, or sorting the result
// all change the token list; the obligations in coq/Exec/ForShape.v compare the
// lists with what the model hard-wires.  A function that is not found yields
// ["?missing"].
package main

import (
	"bytes"
	"go/ast"
	"go/printer"
	"strconv"
	"strings"
)

func init() { moreFacts = append(moreFacts, factsFor) }

func forSrc(n ast.Node) string {
	var b bytes.Buffer
	if err := printer.Fprint(&b, fset, n); err != nil {
		return "?"
	}
	return strings.Join(strings.Fields(b.String()), " ")
}

func forReorders(n ast.Node) bool {
	hit := false
	ast.Inspect(n, func(nd ast.Node) bool {
		if ce, ok := nd.(*ast.CallExpr); ok {
			f := forSrc(ce.Fun)
			lf := strings.ToLower(f)
			if strings.HasPrefix(f, "sort.") || strings.Contains(lf, "sort") || strings.Contains(lf, "reverse") || strings.Contains(lf, "shuffle") {
				hit = true
			}
		}
		return !hit
	})
	return hit
}

type forSkel struct {
	keep func(s ast.Stmt) bool
	out  []string
}

func (k *forSkel) emit(d int, s string) { k.out = append(k.out, strconv.Itoa(d)+":"+s) }

// block prints the statements of a list at depth d; reports whether anything was printed
func (k *forSkel) block(list []ast.Stmt, d int) bool {
	any := false
	for _, s := range list {
		if k.stmt(s, d) {
			any = true
		}
	}
	return any
}

// header prints `head` at depth d only if body (printed at d+1) produced something or force is set
func (k *forSkel) header(d int, head string, force bool, body func() bool) bool {
	pos := len(k.out)
	k.emit(d, head)
	if body() || force {
		return true
	}
	k.out = k.out[:pos]
	return false
}

func (k *forSkel) stmt(s ast.Stmt, d int) bool {
	switch t := s.(type) {
	case *ast.RangeStmt:
		h := "range "
		if t.Key != nil {
			h += forSrc(t.Key)
		}
		if t.Value != nil {
			h += "," + forSrc(t.Value)
		}
		h += " in " + forSrc(t.X)
		return k.header(d, h, true, func() bool { return k.block(t.Body.List, d+1) })
	case *ast.ForStmt:
		h := "for "
		if t.Init != nil {
			h += forSrc(t.Init)
		}
		h += ";"
		if t.Cond != nil {
			h += forSrc(t.Cond)
		}
		h += ";"
		if t.Post != nil {
			h += forSrc(t.Post)
		}
		return k.header(d, h, true, func() bool { return k.block(t.Body.List, d+1) })
	case *ast.IfStmt:
		h := "if "
		if t.Init != nil {
			h += forSrc(t.Init) + "; "
		}
		h += forSrc(t.Cond)
		a := k.header(d, h, false, func() bool { return k.block(t.Body.List, d+1) })
		b := false
		if t.Else != nil {
			b = k.header(d, "else", false, func() bool {
				if eb, ok := t.Else.(*ast.BlockStmt); ok {
					return k.block(eb.List, d+1)
				}
				return k.stmt(t.Else, d+1)
			})
		}
		return a || b
	case *ast.BlockStmt:
		return k.block(t.List, d)
	case *ast.SwitchStmt, *ast.TypeSwitchStmt:
		h := "switch "
		var body *ast.BlockStmt
		if sw, ok := t.(*ast.SwitchStmt); ok {
			if sw.Tag != nil {
				h += forSrc(sw.Tag)
			}
			body = sw.Body
		} else {
			sw := t.(*ast.TypeSwitchStmt)
			h += forSrc(sw.Assign)
			body = sw.Body
		}
		return k.header(d, h, false, func() bool {
			any := false
			for _, c := range body.List {
				cc := c.(*ast.CaseClause)
				ch := "default"
				if cc.List != nil {
					var ts []string
					for _, e := range cc.List {
						ts = append(ts, forSrc(e))
					}
					ch = "case " + strings.Join(ts, ",")
				}
				if k.header(d+1, ch, false, func() bool { return k.block(cc.Body, d+2) }) {
					any = true
				}
			}
			return any
		})
	case *ast.BranchStmt:
		h := t.Tok.String()
		if t.Label != nil {
			h += " " + t.Label.Name
		}
		k.emit(d, h)
		return true
	case *ast.LabeledStmt:
		k.emit(d, "label "+t.Label.Name)
		k.stmt(t.Stmt, d)
		return true
	case *ast.SelectStmt, *ast.GoStmt, *ast.DeferStmt:
		k.emit(d, "?"+forSrc(t))
		return true
	}
	if forReorders(s) {
		k.emit(d, "reorder "+forSrc(s))
		return true
	}
	if k.keep != nil && k.keep(s) {
		k.emit(d, forSrc(s))
		return true
	}
	return false
}

func forSkeleton(list []ast.Stmt, keep func(ast.Stmt) bool) []string {
	k := &forSkel{keep: keep}
	k.block(list, 0)
	if len(k.out) == 0 {
		return []string{"?empty"}
	}
	return k.out
}

// mentions: the statement's source text contains one of the given texts
func forMentions(texts ...string) func(ast.Stmt) bool {
	return func(s ast.Stmt) bool {
		src := forSrc(s)
		for _, t := range texts {
			if strings.Contains(src, t) {
				return true
			}
		}
		return false
	}
}

// the `for ... range <x>` statement directly or indirectly inside body
func forFindRange(body *ast.BlockStmt, x string) *ast.RangeStmt {
	var found *ast.RangeStmt
	n := 0
	ast.Inspect(body, func(nd ast.Node) bool {
		if rs, ok := nd.(*ast.RangeStmt); ok && forSrc(rs.X) == x {
			found = rs
			n++
		}
		return true
	})
	if n != 1 {
		return nil
	}
	return found
}

func factsFor(repo string, o *out) {
	p := load(repo)
	missing := []string{"?missing"}

	// product: every statement (the model mirrors the whole function)
	sk := missing
	if fd := p.funcDecl("", "product"); fd != nil && fd.Body != nil {
		sk = forSkeleton(fd.Body.List, func(ast.Stmt) bool { return true })
	}
	o.def("for_product_skeleton", "list string", coqStrList(sk))

	// compiledTask: the loop over origTask.Cmds / origTask.Deps: loop headers, continue, and every
	// statement that writes new.Cmds / new.Deps or obtains the item list
	cmds, deps := missing, missing
	writes := missing
	if fd := p.funcDecl("Executor", "compiledTask"); fd != nil && fd.Body != nil {
		if rs := forFindRange(fd.Body, "origTask.Cmds"); rs != nil {
			cmds = forSkeleton([]ast.Stmt{rs}, forMentions("new.Cmds", "itemsFromFor", "newCmd", "extra", "as = "))
		}
		if rs := forFindRange(fd.Body, "origTask.Deps"); rs != nil {
			deps = forSkeleton([]ast.Stmt{rs}, forMentions("new.Deps", "itemsFromFor", "newDep", "extra", "as = "))
		}
		// everything in the whole function that touches new.Cmds / new.Deps (an assignment, or a
		// call receiving them: a sort, a reverse ...), in source order
		writes = nil
		var walk func(list []ast.Stmt)
		walk = func(list []ast.Stmt) {
			for _, s := range list {
				switch t := s.(type) {
				case *ast.BlockStmt:
					walk(t.List)
				case *ast.IfStmt:
					walk(t.Body.List)
					if t.Else != nil {
						walk([]ast.Stmt{t.Else})
					}
				case *ast.RangeStmt:
					walk(t.Body.List)
				case *ast.ForStmt:
					walk(t.Body.List)
				case *ast.SwitchStmt:
					for _, c := range t.Body.List {
						walk(c.(*ast.CaseClause).Body)
					}
				case *ast.TypeSwitchStmt:
					for _, c := range t.Body.List {
						walk(c.(*ast.CaseClause).Body)
					}
				default:
					src := forSrc(s)
					if _, isRet := s.(*ast.ReturnStmt); !isRet && (strings.Contains(src, "new.Cmds") || strings.Contains(src, "new.Deps")) {
						writes = append(writes, src)
					}
				}
			}
		}
		walk(fd.Body.List)
		if len(writes) == 0 {
			writes = []string{"?empty"}
		}
	}
	o.def("for_cmds_skeleton", "list string", coqStrList(cmds))
	o.def("for_deps_skeleton", "list string", coqStrList(deps))
	o.def("for_task_writes", "list string", coqStrList(writes))

	// itemsFromFor: returns, and whatever assigns values / keys / glist / matrix
	items := missing
	if fd := p.funcDecl("", "itemsFromFor"); fd != nil && fd.Body != nil {
		keep := func(s ast.Stmt) bool {
			switch t := s.(type) {
			case *ast.ReturnStmt:
				// error returns do not produce items
				return !(len(t.Results) == 3 && forSrc(t.Results[0]) == "nil")
			case *ast.AssignStmt:
				for _, l := range t.Lhs {
					switch forSrc(l) {
					case "values", "keys", "matrix":
						return true
					}
					if strings.HasPrefix(forSrc(l), "glist") {
						return true
					}
				}
			}
			return false
		}
		items = forSkeleton(fd.Body.List, keep)
	}
	o.def("for_items_skeleton", "list string", coqStrList(items))

	// resolveMatrixRefs: rows are copied in the order of matrix.All()
	refs := missing
	if fd := p.funcDecl("", "resolveMatrixRefs"); fd != nil && fd.Body != nil {
		refs = forSkeleton(fd.Body.List, func(s ast.Stmt) bool {
			if rs, ok := s.(*ast.ReturnStmt); ok {
				// error returns do not produce a matrix
				return !(len(rs.Results) == 2 && forSrc(rs.Results[0]) == "nil")
			}
			return strings.Contains(forSrc(s), "resolved")
		})
	}
	o.def("for_matrix_refs_skeleton", "list string", coqStrList(refs))

	// Matrix.All iterates the ordered map from the front (taskfile/ast/matrix.go)
	all := "?missing"
	ap := load(repo + "/taskfile/ast")
	if fd := ap.funcDecl("Matrix", "All"); fd != nil && fd.Body != nil {
		all = "?none"
		n := 0
		for _, s := range fd.Body.List {
			if rs, ok := s.(*ast.ReturnStmt); ok && len(rs.Results) == 1 {
				all = forSrc(rs.Results[0])
				n++
			}
		}
		if n != 1 {
			all = "?returns"
		}
	}
	o.def("for_matrix_all_returns", "string", "\""+strings.ReplaceAll(all, "\"", "\"\"")+"\"")
}
