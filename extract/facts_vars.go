// Facts for model E "Vars" (C10, C11): the order of the variable layers in
// Compiler.getVariables, which layers use the task's directory, the key of the
// dynamic-variable cache, the env merge order of compiledTask, the dotenv
// first-wins guards, the OS-wins rule of env.GetFromVars, where the CLI
// NAME=value assignments are merged, what Tasks.Merge receives as
// "included Taskfile vars", whether include-statement vars are templated at
// read time, and whether resolveMatrixRefs writes into the matrix it is given.
//
// Everything is keyed on call names / selector texts, never on positions, and
// fails closed: an unrecognised shape yields a token ("?...") or a boolean that
// the shape obligations in Properties/C10.v / C11.v do not accept.
package main

import (
	"go/ast"
	"go/token"
	"path/filepath"
	"strings"
)

func init() { moreFacts = append(moreFacts, factsVars) }

var varLayerNames = map[string]string{
	"c.TaskfileEnv":          "TaskfileEnv",
	"c.TaskfileVars":         "TaskfileVars",
	"t.IncludeVars":          "IncludeVars",
	"t.IncludedTaskfileVars": "IncludedTaskfileVars",
	"call.Vars":              "CallVars",
	"t.Vars":                 "TaskVars",
}

// callsNamed reports whether the node contains a call of a function whose printed name is fn.
func varsCallsNamed(n ast.Node, fn string) bool {
	found := false
	ast.Inspect(n, func(nd ast.Node) bool {
		if ce, ok := nd.(*ast.CallExpr); ok && exprStr(ce.Fun) == fn {
			found = true
		}
		return !found
	})
	return found
}

func factsVars(repo string, o *out) {
	root := load(repo)

	// ---- getVariables: layer order ----
	var layers, taskDir []string
	dirAfter := "?missing"
	if fd := root.funcDecl("Compiler", "getVariables"); fd != nil && fd.Body != nil {
		ast.Inspect(fd.Body, func(nd ast.Node) bool {
			switch s := nd.(type) {
			case *ast.FuncLit:
				return false // the body of getRangeFunc is not a layer
			case *ast.AssignStmt:
				// dir := templater.Replace(t.Dir, cache): the task's dir is templated with what `result` holds here
				if len(s.Rhs) == 1 {
					if ce, ok := s.Rhs[0].(*ast.CallExpr); ok && exprStr(ce.Fun) == "templater.Replace" && len(ce.Args) >= 1 && exprStr(ce.Args[0]) == "t.Dir" {
						if dirAfter != "?missing" {
							dirAfter = "?twice"
						} else if len(layers) > 0 {
							dirAfter = layers[len(layers)-1]
						} else {
							dirAfter = "?first"
						}
					}
				}
				if len(s.Lhs) == 1 && exprStr(s.Lhs[0]) == "result" && len(s.Rhs) == 1 {
					if ce, ok := s.Rhs[0].(*ast.CallExpr); ok {
						if exprStr(ce.Fun) == "env.GetEnviron" {
							layers = append(layers, "Environ")
						} else {
							layers = append(layers, "?"+exprStr(ce.Fun))
						}
					}
				}
			case *ast.ExprStmt:
				// any other write to the result (result.Set(...) outside the layer loops) is a layer of its own:
				// it shows up in VarLayers and so in the shape obligation
				if ce, ok := s.X.(*ast.CallExpr); ok && exprStr(ce.Fun) == "result.Set" {
					arg := "?"
					if len(ce.Args) > 0 {
						arg = exprStr(ce.Args[0])
					}
					layers = append(layers, "?Set:"+strings.Trim(arg, "\""))
				}
			case *ast.RangeStmt:
				x := s.X
				if ce, ok := x.(*ast.CallExpr); ok {
					if se, ok := ce.Fun.(*ast.SelectorExpr); ok && se.Sel.Name == "All" {
						x = se.X
					}
				}
				xs := exprStr(x)
				setsResult := varsCallsNamed(s.Body, "result.Set")
				usesRange := varsCallsNamed(s.Body, "rangeFunc")
				usesTask := varsCallsNamed(s.Body, "taskRangeFunc")
				switch {
				case xs == "specialVars" && setsResult:
					layers = append(layers, "Special")
				case usesRange || usesTask:
					n, ok := varLayerNames[xs]
					if !ok {
						n = "?" + xs
					}
					layers = append(layers, n)
					if usesTask {
						taskDir = append(taskDir, n)
					}
					if usesTask && usesRange {
						taskDir = append(taskDir, "?both")
					}
				case setsResult:
					layers = append(layers, "?"+xs)
				}
				return false
			}
			return true
		})
	}
	if len(layers) == 0 {
		layers = []string{"?missing"}
	}
	o.def("VarLayers", "list string", coqStrList(layers))
	o.def("VarLayersTaskDir", "list string", coqStrList(taskDir))

	// the closure built by getRangeFunc gets ast.Var by value, but Var.Sh is a *string shared with the
	// definition: an assignment through a pointer (*x = ...) inside getVariables rewrites the Taskfile
	writesThroughPtr := true // fail closed
	if fd := root.funcDecl("Compiler", "getVariables"); fd != nil && fd.Body != nil {
		writesThroughPtr = false
		ast.Inspect(fd.Body, func(nd ast.Node) bool {
			if as, ok := nd.(*ast.AssignStmt); ok {
				for _, l := range as.Lhs {
					if _, ok := l.(*ast.StarExpr); ok {
						writesThroughPtr = true
					}
				}
			}
			if id, ok := nd.(*ast.IncDecStmt); ok {
				if _, ok := id.X.(*ast.StarExpr); ok {
					writesThroughPtr = true
				}
			}
			return true
		})
	}
	o.def("GetVariablesWritesThroughPointer", "bool", varsBoolStr(writesThroughPtr))
	o.def("TaskDirTemplatedAfter", "string", varsCoqStr(dirAfter))

	// ---- HandleDynamicVar: cache key ----
	key := []string{"?missing"}
	if fd := root.funcDecl("Compiler", "HandleDynamicVar"); fd != nil && fd.Body != nil {
		key = varsDynCacheKey(fd)
	}
	o.def("DynCacheKey", "list string", coqStrList(key))

	// ---- compiledTask: env merge order, task dotenv guard ----
	var envOrder []string
	taskDotFirst := false
	if fd := root.funcDecl("Executor", "compiledTask"); fd != nil && fd.Body != nil {
		names := map[string]string{"e.Taskfile.Env": "GlobalEnv", "dotenvEnvs": "TaskDotenv", "origTask.Env": "TaskEnv"}
		ast.Inspect(fd.Body, func(nd ast.Node) bool {
			ce, ok := nd.(*ast.CallExpr)
			if !ok {
				return true
			}
			if exprStr(ce.Fun) == "new.Env.Merge" && len(ce.Args) >= 1 {
				arg := ce.Args[0]
				if in, ok := arg.(*ast.CallExpr); ok && exprStr(in.Fun) == "templater.ReplaceVars" && len(in.Args) >= 1 {
					arg = in.Args[0]
				}
				n, ok := names[exprStr(arg)]
				if !ok {
					n = "?" + exprStr(arg)
				}
				envOrder = append(envOrder, n)
			}
			return true
		})
		taskDotFirst = varsGuardedSet(fd.Body, "dotenvEnvs")
	}
	if len(envOrder) == 0 {
		envOrder = []string{"?missing"}
	}
	o.def("EnvMergeOrder", "list string", coqStrList(envOrder))

	// ---- compiledTask: is a defer: entry handed to the compiled task as a copy or as the shared definition ----
	// (runDeferred renders the entry lazily and writes the result back into what the compiled task holds)
	deferShared := true // fail closed
	if fd := root.funcDecl("Executor", "compiledTask"); fd != nil && fd.Body != nil {
		found := 0
		ast.Inspect(fd.Body, func(nd ast.Node) bool {
			is, ok := nd.(*ast.IfStmt)
			if !ok || exprStr(is.Cond) != "cmd.Defer" {
				return true
			}
			ast.Inspect(is.Body, func(n2 ast.Node) bool {
				ce, ok := n2.(*ast.CallExpr)
				if ok && exprStr(ce.Fun) == "append" && len(ce.Args) == 2 && exprStr(ce.Args[0]) == "new.Cmds" {
					found++
					if exprStr(ce.Args[1]) == "cmd.DeepCopy()" {
						deferShared = false
					} else {
						deferShared = true
						found += 100
					}
				}
				return true
			})
			return true
		})
		if found != 1 {
			deferShared = true
		}
	}
	o.def("DeferEntrySharedWithDefinition", "bool", varsBoolStr(deferShared))

	// ---- compiledTask: the loop that resolves sh: entries of the task's env must not consult the process
	// environment (env.GetFromVars applies the OS-wins rule, and only when the experiment is off) ----
	envLoopLooksAtOs := true // fail closed
	if fd := root.funcDecl("Executor", "compiledTask"); fd != nil && fd.Body != nil {
		loops := 0
		ast.Inspect(fd.Body, func(nd ast.Node) bool {
			rs, ok := nd.(*ast.RangeStmt)
			if !ok || exprStr(rs.X) != "new.Env.All()" {
				return true
			}
			loops++
			looks := false
			ast.Inspect(rs.Body, func(n2 ast.Node) bool {
				if ce, ok := n2.(*ast.CallExpr); ok {
					f := exprStr(ce.Fun)
					if strings.HasPrefix(f, "os.") || strings.HasPrefix(f, "experiments.") {
						looks = true
					}
				}
				return true
			})
			envLoopLooksAtOs = looks
			return false
		})
		if loops != 1 {
			envLoopLooksAtOs = true
		}
	}
	o.def("EnvShLoopConsultsProcessEnv", "bool", varsBoolStr(envLoopLooksAtOs))
	o.def("TaskDotenvFirstWins", "bool", varsBoolStr(taskDotFirst))

	// ---- taskfile.Dotenv / readDotEnvFiles guards ----
	tfp := load(filepath.Join(repo, "taskfile"))
	globalDotFirst := false
	if fd := tfp.funcDecl("", "Dotenv"); fd != nil && fd.Body != nil {
		globalDotFirst = varsGuardedSet(fd.Body, "env")
	}
	o.def("GlobalDotenvFirstWins", "bool", varsBoolStr(globalDotFirst))
	envBeatsDot := false
	if fd := root.funcDecl("Executor", "readDotEnvFiles"); fd != nil && fd.Body != nil {
		envBeatsDot = varsGuardedSet(fd.Body, "e.Taskfile.Env")
	}
	o.def("GlobalEnvBeatsDotenv", "bool", varsBoolStr(envBeatsDot))

	// ---- env.GetFromVars: OS wins unless the experiment ----
	envp := load(filepath.Join(repo, "internal/env"))
	osWins := false
	if fd := envp.funcDecl("", "GetFromVars"); fd != nil && fd.Body != nil {
		ast.Inspect(fd.Body, func(nd ast.Node) bool {
			is, ok := nd.(*ast.IfStmt)
			if !ok {
				return true
			}
			if ue, ok := is.Cond.(*ast.UnaryExpr); ok && ue.Op == token.NOT && exprStr(ue.X) == "experiments.EnvPrecedence.Enabled()" {
				hasLookup, hasContinue := false, false
				ast.Inspect(is.Body, func(n2 ast.Node) bool {
					if ce, ok := n2.(*ast.CallExpr); ok && exprStr(ce.Fun) == "os.LookupEnv" {
						hasLookup = true
					}
					if bs, ok := n2.(*ast.BranchStmt); ok && bs.Tok == token.CONTINUE {
						hasContinue = true
					}
					return true
				})
				if hasLookup && hasContinue {
					osWins = true
				}
			}
			return true
		})
	}
	o.def("EnvOsWinsUnlessExperiment", "bool", varsBoolStr(osWins))

	// ---- cmd/task: where NAME=value assignments go ----
	cmdp := load(filepath.Join(repo, "cmd/task"))
	cliTarget := "?missing"
	if fd := cmdp.funcDecl("", "run"); fd != nil && fd.Body != nil {
		ast.Inspect(fd.Body, func(nd ast.Node) bool {
			ce, ok := nd.(*ast.CallExpr)
			if !ok {
				return true
			}
			if se, ok := ce.Fun.(*ast.SelectorExpr); ok && se.Sel.Name == "Merge" && len(ce.Args) >= 1 && exprStr(ce.Args[0]) == "globals" {
				cliTarget = exprStr(se.X)
			}
			return true
		})
	}
	o.def("CliGlobalsTarget", "string", varsCoqStr(cliTarget))

	// ---- args.Parse: is the NAME=value text stored as it is (and so templated later) or as a literal ----
	argsp := load(filepath.Join(repo, "args"))
	cliValue := "?missing"
	if fd := argsp.funcDecl("", "Parse"); fd != nil && fd.Body != nil {
		ast.Inspect(fd.Body, func(nd ast.Node) bool {
			ce, ok := nd.(*ast.CallExpr)
			if !ok || exprStr(ce.Fun) != "globals.Set" || len(ce.Args) != 2 {
				return true
			}
			if cl, ok := ce.Args[1].(*ast.CompositeLit); ok && exprStr(cl.Type) == "ast.Var" {
				for _, el := range cl.Elts {
					if kv, ok := el.(*ast.KeyValueExpr); ok && exprStr(kv.Key) == "Value" {
						cliValue = exprStr(kv.Value)
					}
				}
			}
			return true
		})
	}
	o.def("CliValueExpr", "string", varsCoqStr(cliValue))

	// ---- ast.Taskfile.Merge: what included tasks receive, whether child vars go up ----
	astp := load(filepath.Join(repo, "taskfile/ast"))
	snapSrc := "?missing"
	mergeUp := false
	if fd := astp.funcDecl("Taskfile", "Merge"); fd != nil && fd.Body != nil {
		ast.Inspect(fd.Body, func(nd ast.Node) bool {
			ce, ok := nd.(*ast.CallExpr)
			if !ok {
				return true
			}
			switch exprStr(ce.Fun) {
			case "t1.Tasks.Merge":
				if len(ce.Args) == 3 {
					snapSrc = exprStr(ce.Args[2])
				} else {
					snapSrc = "?arity"
				}
			case "t1.Vars.Merge":
				if len(ce.Args) >= 1 && exprStr(ce.Args[0]) == "t2.Vars" {
					mergeUp = true
				}
			}
			return true
		})
	}
	// the snapshot is only what the model says if Tasks.Merge stores a copy of its third parameter
	storesParam := false
	if fd := astp.funcDecl("Tasks", "Merge"); fd != nil && fd.Body != nil && fd.Type.Params != nil && len(fd.Type.Params.List) == 3 && len(fd.Type.Params.List[2].Names) == 1 {
		pn := fd.Type.Params.List[2].Names[0].Name
		ast.Inspect(fd.Body, func(nd ast.Node) bool {
			as, ok := nd.(*ast.AssignStmt)
			if ok && len(as.Lhs) == 1 && len(as.Rhs) == 1 && exprStr(as.Lhs[0]) == "task.IncludedTaskfileVars" && exprStr(as.Rhs[0]) == pn+".DeepCopy()" {
				storesParam = true
			}
			return true
		})
	}
	if !storesParam {
		snapSrc = "?" + snapSrc
	}
	o.def("IncludedTaskfileVarsSource", "string", varsCoqStr(snapSrc))
	o.def("MergeIncludedVarsIntoParent", "bool", varsBoolStr(mergeUp))

	// ---- reader.include: include-statement vars templated at read time ----
	eager := false
	if fd := tfp.funcDecl("Reader", "include"); fd != nil && fd.Body != nil {
		ast.Inspect(fd.Body, func(nd ast.Node) bool {
			cl, ok := nd.(*ast.CompositeLit)
			if !ok || exprStr(cl.Type) != "ast.Include" {
				return true
			}
			for _, el := range cl.Elts {
				if kv, ok := el.(*ast.KeyValueExpr); ok && exprStr(kv.Key) == "Vars" {
					if ce, ok := kv.Value.(*ast.CallExpr); ok && exprStr(ce.Fun) == "templater.ReplaceVars" {
						eager = true
					}
				}
			}
			return true
		})
	}
	o.def("IncludeVarsTemplatedAtRead", "bool", varsBoolStr(eager))

	// ---- reader.include: which of (OS environment, the including file's vars) is merged ON TOP in the
	// variable set the include statement's fields are templated with ----
	inclBase, inclTop := "?missing", "?missing"
	if fd := tfp.funcDecl("Reader", "include"); fd != nil && fd.Body != nil {
		nbase, ntop := 0, 0
		ast.Inspect(fd.Body, func(nd ast.Node) bool {
			switch t := nd.(type) {
			case *ast.AssignStmt:
				if len(t.Lhs) == 1 && len(t.Rhs) == 1 && exprStr(t.Lhs[0]) == "vars" {
					inclBase = exprStr(t.Rhs[0])
					nbase++
				}
			case *ast.CallExpr:
				if exprStr(t.Fun) == "vars.Merge" && len(t.Args) >= 1 {
					inclTop = exprStr(t.Args[0])
					ntop++
				}
			}
			return true
		})
		if nbase != 1 || ntop != 1 {
			inclBase, inclTop = "?ambiguous", "?ambiguous"
		}
	}
	o.def("IncludeTemplateVarsBase", "string", varsCoqStr(inclBase))
	o.def("IncludeTemplateVarsTop", "string", varsCoqStr(inclTop))

	// ---- resolveMatrixRefs: assignment into a row of the matrix it was given ----
	writes := true // fail closed: unknown shape counts as "writes"
	if fd := root.funcDecl("", "resolveMatrixRefs"); fd != nil && fd.Body != nil && fd.Type.Params != nil && len(fd.Type.Params.List) >= 1 && len(fd.Type.Params.List[0].Names) == 1 {
		param := fd.Type.Params.List[0].Names[0].Name
		writes = false
		ast.Inspect(fd.Body, func(nd ast.Node) bool {
			rs, ok := nd.(*ast.RangeStmt)
			if !ok {
				return true
			}
			if !strings.HasPrefix(exprStr(rs.X), param+".") || rs.Value == nil {
				return true
			}
			rowVar := exprStr(rs.Value)
			ast.Inspect(rs.Body, func(n2 ast.Node) bool {
				if as, ok := n2.(*ast.AssignStmt); ok {
					for _, l := range as.Lhs {
						if strings.HasPrefix(exprStr(l), rowVar+".") {
							writes = true
						}
					}
				}
				return true
			})
			return true
		})
	}
	o.def("MatrixResolveWritesShared", "bool", varsBoolStr(writes))
}

func varsBoolStr(b bool) string {
	if b {
		return "true"
	}
	return "false"
}

func varsCoqStr(s string) string { return "\"" + strings.ReplaceAll(s, "\"", "\"\"") + "\"" }

// guardedSet: the body contains `if _, ok := X.Get(k); !ok { X.Set(k, ..) }` for the given X.
func varsGuardedSet(body ast.Node, x string) bool {
	found := false
	ast.Inspect(body, func(nd ast.Node) bool {
		is, ok := nd.(*ast.IfStmt)
		if !ok || is.Init == nil {
			return true
		}
		as, ok := is.Init.(*ast.AssignStmt)
		if !ok || len(as.Rhs) != 1 {
			return true
		}
		ce, ok := as.Rhs[0].(*ast.CallExpr)
		if !ok || exprStr(ce.Fun) != x+".Get" {
			return true
		}
		ue, ok := is.Cond.(*ast.UnaryExpr)
		if !ok || ue.Op != token.NOT {
			return true
		}
		if varsCallsNamed(is.Body, x+".Set") && is.Else == nil {
			found = true
		}
		return true
	})
	return found
}

// dynCacheKey: the parts of (command text, directory, environment) that the index
// expression of c.dynamicCache mentions, local definitions being followed.
func varsDynCacheKey(fd *ast.FuncDecl) []string {
	if fd.Type.Params == nil || len(fd.Type.Params.List) != 3 {
		return []string{"?params"}
	}
	pname := func(i int) string {
		if len(fd.Type.Params.List[i].Names) != 1 {
			return "?"
		}
		return fd.Type.Params.List[i].Names[0].Name
	}
	pv, pdir, penv := pname(0), pname(1), pname(2)
	// local definitions  x := expr
	defs := map[string]ast.Expr{}
	ast.Inspect(fd.Body, func(nd ast.Node) bool {
		if as, ok := nd.(*ast.AssignStmt); ok && as.Tok == token.DEFINE && len(as.Lhs) == 1 && len(as.Rhs) == 1 {
			if id, ok := as.Lhs[0].(*ast.Ident); ok {
				defs[id.Name] = as.Rhs[0]
			}
		}
		return true
	})
	var idx []ast.Expr
	var firstUse token.Pos
	ast.Inspect(fd.Body, func(nd ast.Node) bool {
		if ie, ok := nd.(*ast.IndexExpr); ok && exprStr(ie.X) == "c.dynamicCache" {
			idx = append(idx, ie.Index)
			if firstUse == 0 || ie.Pos() < firstUse {
				firstUse = ie.Pos()
			}
		}
		return true
	})
	if len(idx) < 2 {
		return []string{"?uses"}
	}
	for _, e := range idx[1:] {
		if exprStr(e) != exprStr(idx[0]) {
			return []string{"?mixed"}
		}
	}
	// position of the `dir = v.Dir` override
	var overridePos token.Pos
	ast.Inspect(fd.Body, func(nd ast.Node) bool {
		if as, ok := nd.(*ast.AssignStmt); ok && as.Tok == token.ASSIGN && len(as.Lhs) == 1 && len(as.Rhs) == 1 &&
			exprStr(as.Lhs[0]) == pdir && exprStr(as.Rhs[0]) == pv+".Dir" {
			overridePos = as.Pos()
		}
		return true
	})
	seen := map[string]bool{}
	var walk func(e ast.Expr, depth int)
	walk = func(e ast.Expr, depth int) {
		ast.Inspect(e, func(nd ast.Node) bool {
			switch t := nd.(type) {
			case *ast.SelectorExpr:
				if exprStr(t) == pv+".Sh" {
					seen["Sh"] = true
					return false
				}
				if exprStr(t) == pv+".Dir" {
					seen["Dir?"] = true // keyed on the raw override, not the effective directory
					return false
				}
			case *ast.Ident:
				switch {
				case t.Name == pdir:
					seen["Dir"] = true
				case t.Name == penv:
					seen["Env"] = true
				default:
					if d, ok := defs[t.Name]; ok && depth < 4 && d.Pos() < firstUse {
						walk(d, depth+1)
					}
				}
			}
			return true
		})
	}
	walk(idx[0], 0)
	var out []string
	if seen["Sh"] {
		out = append(out, "Sh")
	}
	if seen["Dir"] {
		// the key must see the effective directory: the v.Dir override has to come before the key is built
		keyPos := firstUse
		if id, ok := idx[0].(*ast.Ident); ok {
			if d, ok := defs[id.Name]; ok {
				keyPos = d.Pos()
			}
		}
		if overridePos != 0 && overridePos < keyPos {
			out = append(out, "Dir")
		} else {
			out = append(out, "?DirBeforeOverride")
		}
	}
	if seen["Dir?"] {
		out = append(out, "?RawDir")
	}
	if seen["Env"] {
		out = append(out, "Env")
	}
	if len(out) == 0 {
		out = []string{"?none"}
	}
	return out
}
