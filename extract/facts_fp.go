package main

// Facts for model B "Fp" (properties C04, C05, C12): the places where the
// fingerprint state is written, rolled back, or where the dry flag travels.
// Every fact is a bool or a small nat code; 99 / "?" = shape not recognised,
// which the obligation fp_shape_ok (Run/FpCases.v) does not accept.

import (
	"fmt"
	"go/ast"
	"path/filepath"
	"strings"
)

func init() { moreFacts = append(moreFacts, factsFp) }

func fpCalls(n ast.Node) []*ast.CallExpr {
	var out []*ast.CallExpr
	if n == nil {
		return out
	}
	ast.Inspect(n, func(x ast.Node) bool {
		if ce, ok := x.(*ast.CallExpr); ok {
			out = append(out, ce)
		}
		return true
	})
	return out
}

func fpHasCall(n ast.Node, name string) bool {
	for _, c := range fpCalls(n) {
		f := exprStr(c.Fun)
		if f == name || strings.HasSuffix(f, "."+name) {
			return true
		}
	}
	return false
}

// argument expressions of every call to <..>.WithDry inside n
func fpWithDryArgs(n ast.Node) []string {
	var out []string
	for _, c := range fpCalls(n) {
		f := exprStr(c.Fun)
		if (f == "WithDry" || strings.HasSuffix(f, ".WithDry")) && len(c.Args) == 1 {
			out = append(out, exprStr(c.Args[0]))
		}
	}
	return out
}

func fpBool(b bool) string { return fmt.Sprint(b) }

// 0: the call is not under any condition mentioning Dry; 1: it is inside an
// if whose condition mentions Dry (negated); 99: call not found.
func fpGuardedBy(body *ast.BlockStmt, callee, needle string) int {
	code := 99
	var walk func(n ast.Node, guarded bool)
	walk = func(n ast.Node, guarded bool) {
		if n == nil {
			return
		}
		switch t := n.(type) {
		case *ast.IfStmt:
			g := guarded || strings.Contains(exprStr(t.Cond), needle)
			if t.Init != nil {
				walk(t.Init, g)
			}
			walk(t.Cond, g)
			walk(t.Body, g)
			if t.Else != nil {
				walk(t.Else, guarded)
			}
			return
		case *ast.CallExpr:
			f := exprStr(t.Fun)
			if f == callee || strings.HasSuffix(f, "."+callee) {
				if guarded {
					code = 1
				} else if code != 1 {
					code = 0
				}
			}
		case *ast.FuncLit:
			walk(t.Body, guarded)
			return
		}
		// generic descent over direct children
		first := true
		ast.Inspect(n, func(c ast.Node) bool {
			if first {
				first = false
				return true
			}
			if c == nil {
				return false
			}
			walk(c, guarded)
			return false
		})
	}
	walk(body, false)
	return code
}

func factsFp(repo string, o *out) {
	fp := load(filepath.Join(repo, "internal/fingerprint"))
	root := load(repo)
	fl := load(filepath.Join(repo, "internal/flags"))

	// --- checkers: where state is written / removed ---
	csUp := fp.funcDecl("ChecksumChecker", "IsUpToDate")
	csErr := fp.funcDecl("ChecksumChecker", "OnError")
	csSum := fp.funcDecl("ChecksumChecker", "checksum")
	tsUp := fp.funcDecl("TimestampChecker", "IsUpToDate")
	tsErr := fp.funcDecl("TimestampChecker", "OnError")
	known := csUp != nil && csErr != nil && csSum != nil && tsUp != nil && tsErr != nil
	body := func(fd *ast.FuncDecl) ast.Node {
		if fd == nil || fd.Body == nil {
			return nil
		}
		return fd.Body
	}
	o.def("fp_cs_check_writes", "bool", fpBool(fpHasCall(body(csUp), "WriteFile")))
	o.def("fp_cs_check_honours_dry", "bool", fpBool(csUp != nil && strings.Contains(fpAllConds(body(csUp)), "dry")))
	o.def("fp_cs_onerror_removes", "bool", fpBool(fpHasCall(body(csErr), "Remove")))
	o.def("fp_cs_stream_basename", "bool", fpBool(fpHasCall(body(csSum), "Base")))
	o.def("fp_cs_checks_generates", "bool", fpBool(fpHasCall(body(csUp), "glob") || fpHasCall(body(csUp), "generatesExist")))
	o.def("fp_ts_check_touches", "bool", fpBool(fpHasCall(body(tsUp), "Chtimes") && fpHasCall(body(tsUp), "Create")))
	o.def("fp_ts_check_honours_dry", "bool", fpBool(tsUp != nil && strings.Contains(fpAllConds(body(tsUp)), "dry")))
	o.def("fp_ts_onerror_removes", "bool", fpBool(fpHasCall(body(tsErr), "Remove")))
	o.def("fp_ts_checks_generates", "bool", fpBool(fpHasCall(body(tsUp), "glob") || fpHasCall(body(tsUp), "generatesExist")))
	o.def("fp_ts_compares_mtimes", "bool", fpBool(fpHasCall(body(tsUp), "anyFileNewerThan") && fpHasCall(body(tsUp), "getMaxTime")))

	// --- IsTaskUpToDate: status AND sources ---
	up := fp.funcDecl("", "IsTaskUpToDate")
	and := false
	if up != nil {
		ast.Inspect(up.Body, func(n ast.Node) bool {
			if be, ok := n.(*ast.BinaryExpr); ok && exprStr(be) == "statusUpToDate&&sourcesUpToDate" {
				and = true
			}
			return true
		})
	}
	o.def("fp_status_and_sources", "bool", fpBool(and))

	// --- RunTask: dry flag, prompt, mkdir, statusOnError ---
	rt := root.funcDecl("Executor", "RunTask")
	st := root.funcDecl("Executor", "Status")
	ed := root.funcDecl("Executor", "ToEditorOutput")
	soe := root.funcDecl("Executor", "statusOnError")
	known = known && rt != nil && st != nil && ed != nil && soe != nil && up != nil
	o.def("fp_runtask_dry_args", "list string", coqStrList(fpWithDryArgs(body(rt))))
	o.def("fp_status_dry_args", "list string", coqStrList(fpWithDryArgs(body(st))))
	edArgs := fpWithDryArgs(body(ed))
	edCode := 99
	if len(edArgs) == 1 {
		switch {
		case edArgs[0] == "e.Dry":
			edCode = 0
		case edArgs[0] == "true":
			edCode = 1
		}
	}
	o.def("fp_editor_dry_code", "nat", fmt.Sprint(edCode))

	// a declined prompt: is statusOnError called inside the `for ... range t.Prompt` loop
	promptRB := false
	promptLoop := false
	cmdErrRB := false
	if rt != nil {
		ast.Inspect(rt.Body, func(n ast.Node) bool {
			if rs, ok := n.(*ast.RangeStmt); ok {
				switch exprStr(rs.X) {
				case "t.Prompt":
					promptLoop = true
					promptRB = fpHasCall(rs.Body, "statusOnError")
				case "t.Cmds":
					cmdErrRB = fpHasCall(rs.Body, "statusOnError")
				}
			}
			return true
		})
	}
	// is the statusOnError after a failing command skipped in dry mode: 1 = the call in the range-t.Cmds loop
	// sits under an if mentioning Dry, 0 = it does not, 99 = no such call
	cmdErrDry := 99
	if rt != nil {
		ast.Inspect(rt.Body, func(n ast.Node) bool {
			if rs, ok := n.(*ast.RangeStmt); ok && exprStr(rs.X) == "t.Cmds" {
				cmdErrDry = fpGuardedBy(rs.Body, "statusOnError", "Dry")
			}
			return true
		})
	}
	o.def("fp_cmd_error_dry_code", "nat", fmt.Sprint(cmdErrDry))
	o.def("fp_prompt_loop_found", "bool", fpBool(promptLoop))
	o.def("fp_prompt_rolls_back", "bool", fpBool(promptRB))
	o.def("fp_cmd_error_rolls_back", "bool", fpBool(cmdErrRB))
	mk := 99
	if rt != nil {
		mk = fpGuardedBy(rt.Body, "mkdir", "Dry")
	}
	o.def("fp_mkdir_dry_code", "nat", fmt.Sprint(mk))
	// does RunTask record the fingerprint itself after the command loop (record-after-success design)?
	// 0: no; 1: only for forced runs (call under a condition on skipFingerprinting); 2: for every successful attempt
	rec := 99
	if rt != nil {
		switch fpGuardedBy(rt.Body, "statusOnSuccess", "skipFingerprinting") {
		case 99:
			rec = 0
		case 1:
			rec = 1
		case 0:
			rec = 2
		}
	}
	o.def("fp_success_record_code", "nat", fmt.Sprint(rec))
	// is the record dropped when an attempt starts: a statusOnError call outside the prompt and command loops
	invFirst := false
	if rt != nil {
		var walk func(n ast.Node)
		walk = func(n ast.Node) {
			ast.Inspect(n, func(x ast.Node) bool {
				if rs, ok := x.(*ast.RangeStmt); ok {
					if e := exprStr(rs.X); e == "t.Prompt" || e == "t.Cmds" {
						return false
					}
				}
				if ce, ok := x.(*ast.CallExpr); ok && strings.HasSuffix(exprStr(ce.Fun), "statusOnError") {
					invFirst = true
				}
				return true
			})
		}
		walk(rt.Body)
	}
	o.def("fp_invalidate_first", "bool", fpBool(invFirst))
	// force skips the fingerprint block
	skipExpr := "?"
	if rt != nil {
		ast.Inspect(rt.Body, func(n ast.Node) bool {
			if as, ok := n.(*ast.AssignStmt); ok && len(as.Lhs) == 1 && exprStr(as.Lhs[0]) == "skipFingerprinting" && len(as.Rhs) == 1 {
				skipExpr = exprStr(as.Rhs[0])
			}
			return true
		})
	}
	o.def("fp_skip_fingerprinting", "string", "\""+skipExpr+"\"")

	// --- flags: --status implies dry ---
	wiring := "?"
	var wargs []string
	for _, fn := range sortedFiles(fl) {
		wargs = append(wargs, fpWithDryArgs(fl.files[fn])...)
	}
	if len(wargs) == 1 {
		wiring = wargs[0]
	}
	o.def("fp_dry_wiring", "string", "\""+wiring+"\"")
	// normalizeFilename: a single ReplaceAllString (not injective)
	plain := false
	if nf := fp.funcDecl("", "normalizeFilename"); nf != nil && nf.Body != nil && len(nf.Body.List) == 1 {
		if rs, ok := nf.Body.List[0].(*ast.ReturnStmt); ok && len(rs.Results) == 1 && fpHasCall(rs.Results[0], "ReplaceAllString") {
			plain = true
		}
	}
	o.def("fp_normalize_plain", "bool", fpBool(plain))
	o.def("fp_functions_found", "bool", fpBool(known))
}

// all if-conditions of a body, concatenated (used to see whether `dry` gates anything)
func fpAllConds(n ast.Node) string {
	var sb strings.Builder
	if n == nil {
		return ""
	}
	ast.Inspect(n, func(x ast.Node) bool {
		if is, ok := x.(*ast.IfStmt); ok {
			sb.WriteString(exprStr(is.Cond))
			sb.WriteString(";")
		}
		return true
	})
	return sb.String()
}
