module verifextract

go 1.23.0
