package main

// Facts for model D "Resolve" (property C15): how WildcardMatch turns a task
// name into a regular expression, the guard of setupFuzzyModel, the shape of
// FindMatchingTasks/GetTask, the two exit codes and main's error->exit mapping.
// Fail closed: an unrecognised shape is emitted as "unknown"/false/999, which
// the obligation C15_facts_recognised does not accept.

import (
	"fmt"
	"go/ast"
	"go/token"
	"path/filepath"
	"strconv"
	"strings"
)

func init() { moreFacts = append(moreFacts, factsResolve) }

func callsIn(n ast.Node) []string {
	var out []string
	if n == nil {
		return out
	}
	ast.Inspect(n, func(x ast.Node) bool {
		if ce, ok := x.(*ast.CallExpr); ok {
			out = append(out, exprStr(ce.Fun))
		}
		return true
	})
	return out
}

func hasCall(n ast.Node, suffix string) bool {
	for _, c := range callsIn(n) {
		if c == suffix || strings.HasSuffix(c, "."+suffix) {
			return true
		}
	}
	return false
}

func stringLits(n ast.Node) []string {
	var out []string
	ast.Inspect(n, func(x ast.Node) bool {
		if bl, ok := x.(*ast.BasicLit); ok && bl.Kind == token.STRING {
			if s, err := strconv.Unquote(bl.Value); err == nil {
				out = append(out, s)
			}
		}
		return true
	})
	return out
}

func containsReturn(n ast.Node) bool {
	found := false
	ast.Inspect(n, func(x ast.Node) bool {
		if _, ok := x.(*ast.ReturnStmt); ok {
			found = true
		}
		return true
	})
	return found
}

// constValue evaluates NAME in a const block of the form `A int = iota + K; B; C ...`.
func constValue(p *pkg, name string) int {
	for _, fn := range sortedFiles(p) {
		for _, d := range p.files[fn].Decls {
			gd, ok := d.(*ast.GenDecl)
			if !ok || gd.Tok != token.CONST {
				continue
			}
			var last ast.Expr
			for i, sp := range gd.Specs {
				vs, ok := sp.(*ast.ValueSpec)
				if !ok {
					continue
				}
				if len(vs.Values) > 0 {
					last = vs.Values[0]
				}
				for _, id := range vs.Names {
					if id.Name != name {
						continue
					}
					switch e := last.(type) {
					case *ast.Ident:
						if e.Name == "iota" {
							return i
						}
					case *ast.BasicLit:
						if v, err := strconv.Atoi(e.Value); err == nil {
							return v
						}
					case *ast.BinaryExpr:
						if x, ok := e.X.(*ast.Ident); ok && x.Name == "iota" && e.Op == token.ADD {
							if bl, ok := e.Y.(*ast.BasicLit); ok {
								if v, err := strconv.Atoi(bl.Value); err == nil {
									return i + v
								}
							}
						}
					}
					return 999
				}
			}
		}
	}
	return 999
}

func factsResolve(repo string, o *out) {
	// --- taskfile/ast: (*Task).WildcardMatch ---
	pa := load(filepath.Join(repo, "taskfile/ast"))
	shape := "unknown"
	dotall := false
	if fd := pa.funcDecl("Task", "WildcardMatch"); fd != nil && fd.Body != nil {
		compiles := hasCall(fd.Body, "MustCompile") || hasCall(fd.Body, "Compile")
		quotes := hasCall(fd.Body, "QuoteMeta")
		submatch := hasCall(fd.Body, "FindStringSubmatch")
		switch {
		case compiles && submatch && quotes:
			shape = "regex-quoted"
		case compiles && submatch && !quotes:
			shape = "regex-raw"
		}
		for _, s := range stringLits(fd.Body) {
			if strings.Contains(s, "(?s") {
				dotall = true
			}
		}
	}
	o.def("resolve_wildcard_shape", "string", strconv.Quote(shape))
	o.def("resolve_wildcard_dotall", "bool", fmt.Sprint(dotall))

	// --- root package: setupFuzzyModel, Setup, FindMatchingTasks, GetTask ---
	pr := load(repo)
	guard := "unknown"
	if fd := pr.funcDecl("Executor", "setupFuzzyModel"); fd != nil && fd.Body != nil && len(fd.Body.List) > 0 {
		if is, ok := fd.Body.List[0].(*ast.IfStmt); ok && is.Init == nil && is.Else == nil &&
			len(is.Body.List) == 1 && containsReturn(is.Body) {
			switch strings.ReplaceAll(exprStr(is.Cond), " ", "") {
			case "e.Taskfile!=nil":
				guard = "returns-when-taskfile-set"
			case "e.Taskfile==nil":
				guard = "returns-when-taskfile-nil"
			}
		} else if hasCall(fd.Body, "Train") {
			if _, isIf := fd.Body.List[0].(*ast.IfStmt); !isIf {
				guard = "none"
			}
		}
		if !hasCall(fd.Body, "Train") {
			guard = "unknown"
		}
	}
	o.def("resolve_fuzzy_guard", "string", strconv.Quote(guard))
	// Setup builds the fuzzy model after the Taskfile has been read
	afterRead := false
	if fd := pr.funcDecl("Executor", "Setup"); fd != nil && fd.Body != nil {
		read, fuzzy := -1, -1
		for i, c := range callsIn(fd.Body) {
			if strings.HasSuffix(c, ".readTaskfile") && read < 0 {
				read = i
			}
			if strings.HasSuffix(c, ".setupFuzzyModel") && fuzzy < 0 {
				fuzzy = i
			}
		}
		afterRead = read >= 0 && fuzzy > read
	}
	o.def("resolve_fuzzy_after_read", "bool", fmt.Sprint(afterRead))
	// the words the model is trained on: the name and the aliases of every task
	trainsAll := false
	if fd := pr.funcDecl("Executor", "setupFuzzyModel"); fd != nil && fd.Body != nil {
		ast.Inspect(fd.Body, func(x ast.Node) bool {
			if rs, ok := x.(*ast.RangeStmt); ok && strings.HasSuffix(exprStr(rs.X), "Tasks.All()") {
				name := false
				aliases := false
				ast.Inspect(rs.Body, func(y ast.Node) bool {
					if ce, ok := y.(*ast.CallExpr); ok {
						f := exprStr(ce.Fun)
						for _, a := range ce.Args {
							if f == "append" && rs.Key != nil && exprStr(a) == exprStr(rs.Key) {
								name = true
							}
							if strings.HasSuffix(exprStr(a), ".Aliases") {
								aliases = true
							}
						}
					}
					return true
				})
				trainsAll = name && aliases
			}
			return true
		})
	}
	o.def("resolve_fuzzy_trains_names_and_aliases", "bool", fmt.Sprint(trainsAll))

	// FindMatchingTasks: exact map lookup that returns, before a loop over Tasks.All(nil) calling WildcardMatch
	exactFirst, unsorted := false, false
	if fd := pr.funcDecl("Executor", "FindMatchingTasks"); fd != nil && fd.Body != nil {
		sawGet := false
		for _, st := range fd.Body.List {
			switch x := st.(type) {
			case *ast.IfStmt:
				if x.Init != nil && hasCall(x.Init, "Get") && containsReturn(x.Body) {
					sawGet = true
				}
			case *ast.RangeStmt:
				if hasCall(x.Body, "WildcardMatch") {
					exactFirst = sawGet
					if ce, ok := x.X.(*ast.CallExpr); ok && strings.HasSuffix(exprStr(ce.Fun), "Tasks.All") &&
						len(ce.Args) == 1 && exprStr(ce.Args[0]) == "nil" {
						unsorted = true
					}
				}
			}
		}
	}
	o.def("resolve_exact_before_wildcard", "bool", fmt.Sprint(exactFirst))
	o.def("resolve_wildcard_scan_in_table_order", "bool", fmt.Sprint(unsorted))

	// GetTask: FindMatchingTasks first, aliases after; > 1 aliased tasks is the conflict error; none is not-found
	aliasAfter, conflict, notFound := false, false, false
	if fd := pr.funcDecl("Executor", "GetTask"); fd != nil && fd.Body != nil {
		sawFind := false
		for _, st := range fd.Body.List {
			if hasCall(st, "FindMatchingTasks") {
				sawFind = true
			}
			if rs, ok := st.(*ast.RangeStmt); ok && sawFind {
				for _, c := range callsIn(rs.Body) {
					if strings.HasSuffix(c, "Contains") {
						aliasAfter = true
					}
				}
			}
			if is, ok := st.(*ast.IfStmt); ok {
				cond := strings.ReplaceAll(exprStr(is.Cond), " ", "")
				lits := ""
				ast.Inspect(is.Body, func(y ast.Node) bool {
					if cl, ok := y.(*ast.CompositeLit); ok {
						lits += typeName(cl.Type) + ";"
					}
					return true
				})
				if strings.HasPrefix(cond, "len()>1") && strings.Contains(lits, "TaskNameConflictError") {
					conflict = true
				}
				if strings.HasPrefix(cond, "len()==0") && strings.Contains(lits, "TaskNotFoundError") {
					notFound = true
				}
			}
		}
	}
	o.def("resolve_alias_after_wildcard", "bool", fmt.Sprint(aliasAfter))
	o.def("resolve_conflict_when_many", "bool", fmt.Sprint(conflict))
	o.def("resolve_not_found_when_none", "bool", fmt.Sprint(notFound))

	// --- errors: codes ---
	pe := load(filepath.Join(repo, "errors"))
	o.def("resolve_code_not_found", "nat", fmt.Sprint(constValue(pe, "CodeTaskNotFound")))
	o.def("resolve_code_conflict", "nat", fmt.Sprint(constValue(pe, "CodeTaskNameConflict")))
	nfCode, cfCode := false, false
	if fd := pe.funcDecl("TaskNotFoundError", "Code"); fd != nil && fd.Body != nil && len(fd.Body.List) == 1 {
		if rs, ok := fd.Body.List[0].(*ast.ReturnStmt); ok && len(rs.Results) == 1 && exprStr(rs.Results[0]) == "CodeTaskNotFound" {
			nfCode = true
		}
	}
	if fd := pe.funcDecl("TaskNameConflictError", "Code"); fd != nil && fd.Body != nil && len(fd.Body.List) == 1 {
		if rs, ok := fd.Body.List[0].(*ast.ReturnStmt); ok && len(rs.Results) == 1 && exprStr(rs.Results[0]) == "CodeTaskNameConflict" {
			cfCode = true
		}
	}
	o.def("resolve_error_types_return_their_codes", "bool", fmt.Sprint(nfCode && cfCode))

	// --- cmd/task: main exits with err.Code() for a TaskError ---
	pm := load(filepath.Join(repo, "cmd/task"))
	exits := false
	if fd := pm.funcDecl("", "main"); fd != nil && fd.Body != nil {
		ast.Inspect(fd.Body, func(x ast.Node) bool {
			is, ok := x.(*ast.IfStmt)
			if !ok || is.Init == nil {
				return true
			}
			asserts := false
			ast.Inspect(is.Init, func(y ast.Node) bool {
				if ta, ok := y.(*ast.TypeAssertExpr); ok && strings.HasSuffix(typeName(ta.Type), "TaskError") {
					asserts = true
				}
				return true
			})
			if asserts {
				ast.Inspect(is.Body, func(y ast.Node) bool {
					if ce, ok := y.(*ast.CallExpr); ok && exprStr(ce.Fun) == "os.Exit" && len(ce.Args) == 1 &&
						strings.HasSuffix(exprStr(ce.Args[0]), ".Code()") {
						exits = true
					}
					return true
				})
			}
			return true
		})
	}
	o.def("resolve_main_exits_with_error_code", "bool", fmt.Sprint(exits))
}
