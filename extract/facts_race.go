// facts_race.go: the syntactic access table for C18 (model J "Race").
//
// Every struct field of the packages under study is an *object class*.  For
// every function the extractor records each access to a field: Read or Write
// (by syntactic position / mutating method), which mutexes of the same object
// are held (Lock/RLock ... Unlock tracked through the statement structure of
// the function), whether it is a sync/atomic operation, whether the function
// can run on a task goroutine (reachable from (*Executor).RunTask in the call
// graph: phase "conc"; everything else runs on the calling goroutine before
// goroutines are started: phase "main"), and whether the accessed object is
// provably a value created by the running call itself ("fresh": composite
// literal, constructor result, DeepCopy, ... propagated through locals,
// results and parameters) or not ("shared": fail closed).
//
// go/types is used with a stub importer for everything outside the module, so
// only the repository's own declarations are resolved (fast, no build needed).
package main

import (
	"fmt"
	"go/ast"
	"go/build"
	"go/importer"
	"go/parser"
	"go/token"
	"go/types"
	"os"
	"path/filepath"
	"sort"
	"strings"
)

func init() { moreFacts = append(moreFacts, factsRace) }

const raceMod = "github.com/go-task/task/v3"

// Assumptions the syntactic freshness analysis cannot establish; each is
// emitted into Facts.v (race_assumptions) and listed in the evidence.  They are
// keyed on (function, expression text): if the code changes shape the
// assumption no longer applies and the access falls back to "shared".
var raceAssume = []struct{ fn, expr, why string }{
	{"task.(*Executor).RunTask", "param:call", "every target / dep / task call gets its own *Call (Run's callers build one per target; runDeps and runCommand build one per call)"},
}

// methods of the container types that do not mutate the receiver
var raceReadOnlyMethods = map[string]bool{
	"Get": true, "Len": true, "AllFromFront": true, "AllFromBack": true, "Keys": true, "Values": true, "Front": true, "Back": true,
	"GetElement": true, "Has": true, "GetOrDefault": true, "String": true, "Bytes": true, "Load": true, "Range": true, "Size": true,
	"Err": true, "Done": true, "Value": true, "Error": true,
	"SpellCheck": true, // sajari/fuzzy: the model synchronises itself (own RWMutex); the field is only read
}

type rPkg struct {
	path, short string
	files       []*ast.File
	info        *types.Info
	tpkg        *types.Package
}

type rLoader struct {
	repo string
	fset *token.FileSet
	pkgs map[string]*rPkg
	stub map[string]*types.Package
	ext  map[string]*types.Package
	std  types.Importer
	ord  []string
}

func (l *rLoader) Import(path string) (*types.Package, error) {
	if p, ok := l.pkgs[path]; ok {
		if p == nil || p.tpkg == nil {
			return l.stubPkg(path), nil // import cycle guard
		}
		return p.tpkg, nil
	}
	if path == raceMod || strings.HasPrefix(path, raceMod+"/") {
		rel := strings.TrimPrefix(strings.TrimPrefix(path, raceMod), "/")
		dir := filepath.Join(l.repo, rel)
		if ents, err := os.ReadDir(dir); err == nil {
			rp := &rPkg{path: path, short: rel}
			if rel == "" {
				rp.short = "task"
			}
			l.pkgs[path] = nil
			for _, e := range ents {
				n := e.Name()
				if e.IsDir() || !strings.HasSuffix(n, ".go") || strings.HasSuffix(n, "_test.go") {
					continue
				}
				if ok, _ := build.Default.MatchFile(dir, n); !ok {
					continue
				}
				if f, err := parser.ParseFile(l.fset, filepath.Join(dir, n), nil, 0); err == nil {
					rp.files = append(rp.files, f)
				}
			}
			rp.info = &types.Info{
				Types: map[ast.Expr]types.TypeAndValue{}, Defs: map[*ast.Ident]types.Object{},
				Uses: map[*ast.Ident]types.Object{}, Selections: map[*ast.SelectorExpr]*types.Selection{},
				Implicits: map[ast.Node]types.Object{},
			}
			cfg := types.Config{Importer: l, Error: func(error) {}, FakeImportC: true, GoVersion: "go1.23"}
			rp.tpkg, _ = cfg.Check(path, l.fset, rp.files, rp.info)
			l.pkgs[path] = rp
			l.ord = append(l.ord, path)
			if rp.tpkg != nil {
				return rp.tpkg, nil
			}
		}
	}
	if p := l.external(path); p != nil {
		return p, nil
	}
	return l.stubPkg(path), nil
}

// third-party packages type-checked from the module cache (small, and their
// types flow through the code under study: the ordered map's iterators)
var raceThirdParty = map[string]bool{"github.com/elliotchance/orderedmap/v3": true}

// standard-library subtrees that are NOT type-checked from source (slow or cgo); they are stubbed
var raceStdStub = []string{"net", "crypto", "os/user", "database", "debug", "go/", "html", "image", "log/syslog", "plugin", "testing", "runtime/cgo", "C"}

// external resolves standard-library packages (from GOROOT source) and the
// allow-listed third-party packages (from the module cache); nil = stub it.
func (l *rLoader) external(path string) (pkg *types.Package) {
	if p, ok := l.ext[path]; ok {
		return p
	}
	defer func() {
		if r := recover(); r != nil {
			pkg = nil
		}
		l.ext[path] = pkg
	}()
	first := path
	if i := strings.Index(path, "/"); i >= 0 {
		first = path[:i]
	}
	if !strings.Contains(first, ".") { // standard library
		for _, s := range raceStdStub {
			if path == strings.TrimSuffix(s, "/") || strings.HasPrefix(path, strings.TrimSuffix(s, "/")+"/") {
				return nil
			}
		}
		if l.std == nil {
			l.std = importer.ForCompiler(l.fset, "source", nil)
		}
		p, err := l.std.Import(path)
		if err != nil {
			return nil
		}
		return p
	}
	if !raceThirdParty[path] {
		return nil
	}
	gomod, err := os.ReadFile(filepath.Join(l.repo, "go.mod"))
	if err != nil {
		return nil
	}
	version := ""
	for _, ln := range strings.Split(string(gomod), "\n") {
		f := strings.Fields(ln)
		if len(f) >= 2 && f[0] == path {
			version = f[1]
		} else if len(f) >= 3 && f[0] == "require" && f[1] == path {
			version = f[2]
		}
	}
	if version == "" {
		return nil
	}
	cache := os.Getenv("GOMODCACHE")
	if cache == "" {
		gp := os.Getenv("GOPATH")
		if gp == "" {
			home, _ := os.UserHomeDir()
			gp = filepath.Join(home, "go")
		}
		cache = filepath.Join(strings.Split(gp, string(os.PathListSeparator))[0], "pkg", "mod")
	}
	var esc strings.Builder
	for _, r := range path {
		if r >= 'A' && r <= 'Z' {
			esc.WriteByte('!')
			esc.WriteRune(r + 'a' - 'A')
		} else {
			esc.WriteRune(r)
		}
	}
	dir := filepath.Join(cache, esc.String()+"@"+version)
	ents, err := os.ReadDir(dir)
	if err != nil {
		return nil
	}
	var files []*ast.File
	for _, e := range ents {
		n := e.Name()
		if e.IsDir() || !strings.HasSuffix(n, ".go") || strings.HasSuffix(n, "_test.go") {
			continue
		}
		if f, err := parser.ParseFile(l.fset, filepath.Join(dir, n), nil, 0); err == nil {
			files = append(files, f)
		}
	}
	cfg := types.Config{Importer: l, Error: func(error) {}, FakeImportC: true, GoVersion: "go1.23"}
	l.ext[path] = nil
	p, _ := cfg.Check(path, l.fset, files, nil)
	return p
}

func (l *rLoader) stubPkg(path string) *types.Package {
	if p, ok := l.stub[path]; ok {
		return p
	}
	name := path[strings.LastIndex(path, "/")+1:]
	if len(name) > 1 && name[0] == 'v' && strings.Trim(name[1:], "0123456789") == "" {
		rest := strings.TrimSuffix(path, "/"+name)
		name = rest[strings.LastIndex(rest, "/")+1:]
	}
	if i := strings.Index(name, "."); i > 0 {
		name = name[:i]
	}
	p := types.NewPackage(path, name)
	p.MarkComplete()
	l.stub[path] = p
	return p
}

type rFn struct {
	name   string // "task.(*Executor).RunTask", "taskfile/ast.(*Vars).Set", "internal/templater.Replace"
	decl   *ast.FuncDecl
	pkg    *rPkg
	obj    *types.Func
	params []*types.Var // [0] = receiver (or nil), then parameters
	conc   bool

	callees    map[*types.Func]bool
	ifaceCalls map[string]bool
	calls      []rCall
	accesses   []*rAccess
	assigns    map[*types.Var][]ast.Expr            // local -> right-hand sides (nil entry = not analysable)
	fassigns   map[*types.Var]map[string][]ast.Expr // local -> field -> right-hand sides
	nilDead    map[ast.Node]int                     // block -> parameter index whose nil-ness makes it dead
	published  map[*types.Var][]ast.Expr            // local -> objects it was stored into (nil = a goroutine / channel)
	rangeOf    map[*types.Var]ast.Expr              // loop variable -> the slice field it ranges over
}

type rCall struct {
	fn      *types.Func // static callee (nil for interface / dynamic)
	name    string      // method name for interface calls
	recv    ast.Expr
	args    []ast.Expr
	deadIdx []ast.Node // enclosing blocks guarded by `param != nil`
	held    heldSet    // locks held at the call site
}

type litInit struct {
	fn  *rFn
	rhs ast.Expr
}

type dynCall struct {
	fn   *rFn
	args []ast.Expr
}

type rAccess struct {
	fn     *rFn
	expr   string
	base   ast.Expr
	class  string
	kind   string
	locks  [][2]string
	atomic bool
	dead   []ast.Node
	scope  string
}

type raceAnalysis struct {
	l         *rLoader
	fns       map[*types.Func]*rFn
	byName    map[string][]*rFn // method/function name -> declarations (for interface calls)
	lockField map[*types.Var]string
	freshRet  map[*types.Func]bool
	parFresh  map[*types.Func][]bool
	parNil    map[*types.Func][]bool
	valueRef  map[*types.Func]bool
	used      map[string]bool // assumptions actually applied
	memo      map[*types.Var]int
	elemMemo  map[string]int
	closureOf map[*types.Var][2]any         // parameter of a returned closure -> (named func type, index)
	dynCalls  map[*types.TypeName][]dynCall // calls through a value of a named func type
	litInits  map[string][]litInit          // field class -> values given to it in composite literals
}

func fnName(pkg *rPkg, fd *ast.FuncDecl) string {
	if fd.Recv != nil && len(fd.Recv.List) == 1 {
		t := fd.Recv.List[0].Type
		star := false
		if s, ok := t.(*ast.StarExpr); ok {
			star = true
			t = s.X
		}
		tn := typeName(t)
		if star {
			return fmt.Sprintf("%s.(*%s).%s", pkg.short, tn, fd.Name.Name)
		}
		return fmt.Sprintf("%s.%s.%s", pkg.short, tn, fd.Name.Name)
	}
	return pkg.short + "." + fd.Name.Name
}

func stripExpr(e ast.Expr) ast.Expr {
	for {
		switch t := e.(type) {
		case *ast.ParenExpr:
			e = t.X
		case *ast.StarExpr:
			e = t.X
		case *ast.IndexExpr:
			e = t.X
		case *ast.SliceExpr:
			e = t.X
		case *ast.TypeAssertExpr:
			e = t.X
		default:
			return e
		}
	}
}

func (a *raceAnalysis) fieldOf(p *rPkg, se *ast.SelectorExpr) (*types.Var, string) {
	sel := p.info.Selections[se]
	if sel == nil || sel.Kind() != types.FieldVal {
		return nil, ""
	}
	v, ok := sel.Obj().(*types.Var)
	if !ok || !v.IsField() {
		return nil, ""
	}
	t := sel.Recv()
	for {
		if pt, ok := t.(*types.Pointer); ok {
			t = pt.Elem()
			continue
		}
		break
	}
	n, ok := t.(*types.Named)
	if !ok || n.Obj() == nil || n.Obj().Pkg() == nil {
		return nil, ""
	}
	// a promoted field belongs to the embedded type; name it after the type that declares it
	owner := n.Obj().Name()
	if idx := sel.Index(); len(idx) > 1 {
		if st, ok := n.Underlying().(*types.Struct); ok {
			cur := st
			for _, i := range idx[:len(idx)-1] {
				ft := cur.Field(i).Type()
				if pt, ok := ft.(*types.Pointer); ok {
					ft = pt.Elem()
				}
				if nn, ok := ft.(*types.Named); ok {
					owner = nn.Obj().Name()
					if s2, ok := nn.Underlying().(*types.Struct); ok {
						cur = s2
					}
				}
			}
		}
	}
	short := strings.TrimPrefix(strings.TrimPrefix(v.Pkg().Path(), raceMod), "/")
	if short == "" {
		short = "task"
	}
	return v, short + "." + owner + "." + v.Name()
}

// ---- pass 1: declarations, lock fields ----

func (a *raceAnalysis) collect() {
	for _, path := range a.l.ord {
		p := a.l.pkgs[path]
		if p == nil {
			continue
		}
		for _, f := range p.files {
			for _, d := range f.Decls {
				switch dd := d.(type) {
				case *ast.FuncDecl:
					if dd.Body == nil {
						continue
					}
					obj, _ := p.info.Defs[dd.Name].(*types.Func)
					if obj == nil {
						continue
					}
					fn := &rFn{name: fnName(p, dd), decl: dd, pkg: p, obj: obj, callees: map[*types.Func]bool{}, ifaceCalls: map[string]bool{},
						assigns: map[*types.Var][]ast.Expr{}, fassigns: map[*types.Var]map[string][]ast.Expr{}, nilDead: map[ast.Node]int{},
						published: map[*types.Var][]ast.Expr{}, rangeOf: map[*types.Var]ast.Expr{}}
					fn.params = append(fn.params, nil)
					if dd.Recv != nil && len(dd.Recv.List) == 1 && len(dd.Recv.List[0].Names) == 1 {
						if v, ok := p.info.Defs[dd.Recv.List[0].Names[0]].(*types.Var); ok {
							fn.params[0] = v
						}
					}
					for _, fl := range dd.Type.Params.List {
						if len(fl.Names) == 0 {
							fn.params = append(fn.params, nil)
						}
						for _, n := range fl.Names {
							v, _ := p.info.Defs[n].(*types.Var)
							fn.params = append(fn.params, v)
						}
					}
					a.fns[obj] = fn
					a.byName[dd.Name.Name] = append(a.byName[dd.Name.Name], fn)
					// functional options: `func WithX(..) Opt { return func(c *Cfg) {...} }` with Opt a named func type
					if res := obj.Type().(*types.Signature).Results(); res.Len() == 1 {
						if n, ok := res.At(0).Type().(*types.Named); ok {
							if _, isSig := n.Underlying().(*types.Signature); isSig {
								ast.Inspect(dd.Body, func(nd ast.Node) bool {
									rs, ok := nd.(*ast.ReturnStmt)
									if !ok || len(rs.Results) != 1 {
										return true
									}
									if fl, ok := rs.Results[0].(*ast.FuncLit); ok {
										k := 0
										for _, pl := range fl.Type.Params.List {
											for _, nm := range pl.Names {
												if pv, ok := p.info.Defs[nm].(*types.Var); ok {
													a.closureOf[pv] = [2]any{n.Obj(), k}
												}
												k++
											}
											if len(pl.Names) == 0 {
												k++
											}
										}
									}
									return true
								})
							}
						}
					}
				case *ast.GenDecl:
					for _, sp := range dd.Specs {
						ts, ok := sp.(*ast.TypeSpec)
						if !ok {
							continue
						}
						st, ok := ts.Type.(*ast.StructType)
						if !ok {
							continue
						}
						for _, fl := range st.Fields.List {
							ty := exprStr(fl.Type)
							if ty != "sync.Mutex" && ty != "sync.RWMutex" {
								continue
							}
							for _, n := range fl.Names {
								if v, ok := p.info.Defs[n].(*types.Var); ok {
									a.lockField[v] = p.short + "." + ts.Name.Name + "." + n.Name
								}
							}
						}
					}
				}
			}
		}
	}
}

// ---- pass 2: per-function walk (locksets, accesses, calls, assignments) ----

type heldSet map[string][2]string // base expr text -> (lock class, mode); key = base + "\x00" + class

func (h heldSet) clone() heldSet {
	c := heldSet{}
	for k, v := range h {
		c[k] = v
	}
	return c
}

func intersect(x, y heldSet) heldSet {
	c := heldSet{}
	for k, v := range x {
		if w, ok := y[k]; ok {
			if v[1] == w[1] {
				c[k] = v
			} else {
				c[k] = [2]string{v[0], "S"}
			}
		}
	}
	return c
}

type walker struct {
	a      *raceAnalysis
	fn     *rFn
	writes map[ast.Expr]bool
	atomic map[ast.Expr]bool
	dead   []ast.Node
	cur    heldSet // locks held at the expression being recorded
}

// lockOp recognises X.<lockfield>.Lock() etc.; returns key, class, op.
func (w *walker) lockOp(e ast.Expr) (string, string, string) {
	ce, ok := e.(*ast.CallExpr)
	if !ok {
		return "", "", ""
	}
	se, ok := ce.Fun.(*ast.SelectorExpr)
	if !ok {
		return "", "", ""
	}
	switch se.Sel.Name {
	case "Lock", "Unlock", "RLock", "RUnlock":
	default:
		return "", "", ""
	}
	fs, ok := se.X.(*ast.SelectorExpr)
	if !ok {
		return "", "", ""
	}
	sel := w.fn.pkg.info.Selections[fs]
	if sel == nil {
		return "", "", ""
	}
	v, _ := sel.Obj().(*types.Var)
	cls, ok := w.a.lockField[v]
	if !ok {
		return "", "", ""
	}
	return exprStr(fs.X) + "\x00" + cls, cls, se.Sel.Name
}

// sigOp recognises the two halves of a signal-only channel: `<-X.f` as a
// statement (returns key, class, "after-wait") and `close(X.f)` (…, "before-close").
func (w *walker) sigOp(e ast.Expr) (string, string, string) {
	var target ast.Expr
	role := ""
	switch t := e.(type) {
	case *ast.UnaryExpr:
		if t.Op == token.ARROW {
			target, role = t.X, "after-wait"
		}
	case *ast.CallExpr:
		if id, ok := t.Fun.(*ast.Ident); ok && id.Name == "close" && len(t.Args) == 1 {
			target, role = t.Args[0], "before-close"
		}
	}
	se, ok := target.(*ast.SelectorExpr)
	if !ok {
		return "", "", ""
	}
	v, cls := w.a.fieldOf(w.fn.pkg, se)
	if v == nil {
		return "", "", ""
	}
	if role == "before-close" {
		// only the creator may claim "before I close it": the channel's owner object is a local built here from a literal
		id, ok := se.X.(*ast.Ident)
		if !ok {
			return "", "", ""
		}
		lv, ok := w.fn.pkg.info.Uses[id].(*types.Var)
		if !ok || len(w.fn.assigns[lv]) == 0 {
			return "", "", ""
		}
		for _, r := range w.fn.assigns[lv] {
			x := r
			if u, ok := x.(*ast.UnaryExpr); ok && u.Op == token.AND {
				x = u.X
			}
			if _, ok := x.(*ast.CompositeLit); !ok {
				return "", "", ""
			}
		}
	}
	return exprStr(se.X) + "\x00" + cls, cls, role
}

func (w *walker) markWrite(e ast.Expr) {
	e2 := e
	for {
		switch t := e2.(type) {
		case *ast.ParenExpr:
			e2 = t.X
			continue
		case *ast.StarExpr:
			e2 = t.X
			continue
		case *ast.IndexExpr:
			e2 = t.X
			continue
		case *ast.SliceExpr:
			e2 = t.X
			continue
		}
		break
	}
	if se, ok := e2.(*ast.SelectorExpr); ok {
		w.writes[se] = true
	}
}

func isPkgCall(ce *ast.CallExpr, pkg string) (string, bool) {
	se, ok := ce.Fun.(*ast.SelectorExpr)
	if !ok {
		return "", false
	}
	id, ok := se.X.(*ast.Ident)
	if !ok || id.Name != pkg {
		return "", false
	}
	return se.Sel.Name, true
}

// premark finds the write positions of a subtree before accesses are recorded.
func (w *walker) premark(n ast.Node) {
	ast.Inspect(n, func(nd ast.Node) bool {
		switch t := nd.(type) {
		case *ast.AssignStmt:
			for _, l := range t.Lhs {
				w.markWrite(l)
			}
		case *ast.IncDecStmt:
			w.markWrite(t.X)
		case *ast.RangeStmt:
			if t.Tok == token.ASSIGN {
				if t.Key != nil {
					w.markWrite(t.Key)
				}
				if t.Value != nil {
					w.markWrite(t.Value)
				}
			}
		case *ast.UnaryExpr:
			if t.Op == token.AND {
				if _, isLit := t.X.(*ast.CompositeLit); !isLit {
					w.markWrite(t.X)
				}
			}
		case *ast.CallExpr:
			if _, ok := isPkgCall(t, "atomic"); ok {
				for _, arg := range t.Args {
					x := arg
					if u, ok := x.(*ast.UnaryExpr); ok && u.Op == token.AND {
						x = u.X
					}
					if ie, ok := x.(*ast.IndexExpr); ok {
						// atomic op on an element of a container field: element access is atomic, the container is read
						if se, ok := stripExpr(ie).(*ast.SelectorExpr); ok {
							w.atomic[se] = true
						}
					} else if se, ok := stripExpr(x).(*ast.SelectorExpr); ok {
						w.atomic[se] = true
						w.writes[se] = true
					}
				}
				return true
			}
			if id, ok := t.Fun.(*ast.Ident); ok && (id.Name == "delete" || id.Name == "clear" || id.Name == "copy") && len(t.Args) > 0 {
				w.markWrite(t.Args[0])
			}
			if se, ok := t.Fun.(*ast.SelectorExpr); ok {
				// a method call on a field: mutating unless the method is known to be read-only.
				// Only for receivers whose method is NOT a declared method of the repository
				// (those are analysed themselves): third-party / stdlib containers.
				repoMethod := false
				if sel := w.fn.pkg.info.Selections[se]; sel != nil {
					if obj, ok := sel.Obj().(*types.Func); ok && w.a.fns[obj] != nil {
						repoMethod = true
					}
					if _, isIface := sel.Recv().Underlying().(*types.Interface); isIface {
						repoMethod = true // dispatched to declared methods, analysed there
					}
					if sel.Kind() == types.FieldVal {
						repoMethod = true // calling a function-typed field: not a method of the field's object
					}
				}
				if !repoMethod && !raceReadOnlyMethods[se.Sel.Name] {
					if _, l, _ := w.lockOp(t); l == "" {
						w.markWrite(se.X)
					}
				}
			}
		}
		return true
	})
}

func (w *walker) recordExprs(n ast.Node, held heldSet) {
	if n == nil {
		return
	}
	ast.Inspect(n, func(nd ast.Node) bool {
		switch t := nd.(type) {
		case *ast.FuncLit:
			// a closure may run later / elsewhere: no lock of the enclosing function is assumed
			w.block(t.Body.List, heldSet{})
			return false
		case *ast.CompositeLit:
			w.recordLit(t)
		case *ast.CallExpr:
			w.cur = held
			w.recordCall(t)
		case *ast.SelectorExpr:
			w.recordAccess(t, held)
		}
		return true
	})
}

// recordLit notes, for a struct literal of a type declared in the module, the value given to each keyed field.
func (w *walker) recordLit(cl *ast.CompositeLit) {
	tv, ok := w.fn.pkg.info.Types[cl]
	if !ok || tv.Type == nil {
		return
	}
	t := tv.Type
	if pt, ok := t.(*types.Pointer); ok {
		t = pt.Elem()
	}
	n, ok := t.(*types.Named)
	if !ok || n.Obj() == nil || n.Obj().Pkg() == nil {
		return
	}
	if _, isStruct := n.Underlying().(*types.Struct); !isStruct {
		return
	}
	path := n.Obj().Pkg().Path()
	if path != raceMod && !strings.HasPrefix(path, raceMod+"/") {
		return
	}
	short := strings.TrimPrefix(strings.TrimPrefix(path, raceMod), "/")
	if short == "" {
		short = "task"
	}
	for _, el := range cl.Elts {
		kv, ok := el.(*ast.KeyValueExpr)
		if !ok {
			continue
		}
		if id, ok := kv.Key.(*ast.Ident); ok {
			class := short + "." + n.Obj().Name() + "." + id.Name
			w.a.litInits[class] = append(w.a.litInits[class], litInit{w.fn, kv.Value})
		}
	}
}

func (w *walker) recordCall(ce *ast.CallExpr) {
	info := w.fn.pkg.info
	deadCopy := append([]ast.Node(nil), w.dead...)
	if tv, ok := info.Types[ce.Fun]; ok && tv.Type != nil {
		if n, ok := tv.Type.(*types.Named); ok {
			if _, isSig := n.Underlying().(*types.Signature); isSig && !tv.IsType() {
				w.a.dynCalls[n.Obj()] = append(w.a.dynCalls[n.Obj()], dynCall{w.fn, ce.Args})
			}
		}
	}
	n0 := len(w.fn.calls)
	defer func() {
		for i := n0; i < len(w.fn.calls); i++ {
			w.fn.calls[i].held = w.cur
		}
	}()
	switch f := ce.Fun.(type) {
	case *ast.Ident:
		if obj, ok := info.Uses[f].(*types.Func); ok {
			w.fn.callees[obj] = true
			w.fn.calls = append(w.fn.calls, rCall{fn: obj, args: ce.Args, deadIdx: deadCopy})
		}
	case *ast.SelectorExpr:
		if sel := info.Selections[f]; sel != nil {
			if obj, ok := sel.Obj().(*types.Func); ok {
				if _, isIface := sel.Recv().Underlying().(*types.Interface); isIface {
					w.fn.ifaceCalls[f.Sel.Name] = true
					w.fn.calls = append(w.fn.calls, rCall{name: f.Sel.Name, recv: f.X, args: ce.Args, deadIdx: deadCopy})
				} else if w.a.fns[obj] == nil {
					// a concrete method declared outside the module: no edge (see premark for its effect on the receiver)
				} else {
					w.fn.callees[obj] = true
					w.fn.calls = append(w.fn.calls, rCall{fn: obj, recv: f.X, args: ce.Args, deadIdx: deadCopy})
				}
			}
		} else if obj, ok := info.Uses[f.Sel].(*types.Func); ok { // pkg.Func
			w.fn.callees[obj] = true
			w.fn.calls = append(w.fn.calls, rCall{fn: obj, args: ce.Args, deadIdx: deadCopy})
		}
	case *ast.IndexExpr: // generic instantiation pkg.F[T](...)
		switch g := f.X.(type) {
		case *ast.Ident:
			if obj, ok := info.Uses[g].(*types.Func); ok {
				w.fn.callees[obj] = true
				w.fn.calls = append(w.fn.calls, rCall{fn: obj, args: ce.Args, deadIdx: deadCopy})
			}
		case *ast.SelectorExpr:
			if obj, ok := info.Uses[g.Sel].(*types.Func); ok {
				w.fn.callees[obj] = true
				w.fn.calls = append(w.fn.calls, rCall{fn: obj, args: ce.Args, deadIdx: deadCopy})
			}
		}
	}
}

func (w *walker) recordAccess(se *ast.SelectorExpr, held heldSet) {
	v, class := w.a.fieldOf(w.fn.pkg, se)
	if v == nil {
		return
	}
	if _, isLock := w.a.lockField[v]; isLock {
		return
	}
	acc := &rAccess{fn: w.fn, expr: exprStr(se), base: se.X, class: class, kind: "R", dead: append([]ast.Node(nil), w.dead...)}
	if w.writes[se] {
		acc.kind = "W"
	}
	if w.atomic[se] {
		if w.writes[se] {
			acc.atomic = true
		} else {
			// container read + atomic element access
			el := *acc
			el.class, el.kind, el.atomic = class+"[]", "W", true
			w.fn.accesses = append(w.fn.accesses, &el)
		}
	}
	base := exprStr(se.X)
	for k, lk := range held {
		if strings.HasPrefix(k, base+"\x00") {
			acc.locks = append(acc.locks, lk)
		}
	}
	sort.Slice(acc.locks, func(i, j int) bool { return acc.locks[i][0] < acc.locks[j][0] })
	w.fn.accesses = append(w.fn.accesses, acc)
}

// publish: local variables whose value (or address) is stored into the object `into`
// (nil = handed to another goroutine) are no longer confined to this call.
func (w *walker) publish(e ast.Expr, into ast.Expr) {
	info := w.fn.pkg.info
	switch t := e.(type) {
	case *ast.ParenExpr:
		w.publish(t.X, into)
	case *ast.UnaryExpr:
		if t.Op == token.AND {
			w.publish(t.X, into)
		}
	case *ast.Ident:
		if v, ok := info.Uses[t].(*types.Var); ok && !v.IsField() {
			w.fn.published[v] = append(w.fn.published[v], into)
		}
	case *ast.CallExpr:
		if id, ok := t.Fun.(*ast.Ident); ok && id.Name == "append" {
			for _, a := range t.Args[1:] {
				w.publish(a, into)
			}
		}
	case *ast.CompositeLit:
		for _, el := range t.Elts {
			if kv, ok := el.(*ast.KeyValueExpr); ok {
				w.publish(kv.Value, into)
			} else {
				w.publish(el, into)
			}
		}
	}
}

func (w *walker) noteAssign(lhs ast.Expr, rhs ast.Expr) {
	info := w.fn.pkg.info
	if _, plain := lhs.(*ast.Ident); !plain && rhs != nil {
		base := lhs
		for {
			switch t := base.(type) {
			case *ast.ParenExpr:
				base = t.X
				continue
			case *ast.StarExpr:
				base = t.X
				continue
			case *ast.IndexExpr:
				base = t.X
				continue
			}
			break
		}
		if se, ok := base.(*ast.SelectorExpr); ok {
			base = se.X
		}
		w.publish(rhs, base)
	}
	switch l := lhs.(type) {
	case *ast.Ident:
		var v *types.Var
		if o, ok := info.Defs[l].(*types.Var); ok {
			v = o
		} else if o, ok := info.Uses[l].(*types.Var); ok {
			v = o
		}
		if v != nil {
			w.fn.assigns[v] = append(w.fn.assigns[v], rhs)
		}
	case *ast.SelectorExpr:
		if id, ok := l.X.(*ast.Ident); ok {
			if v, ok := info.Uses[id].(*types.Var); ok {
				if w.fn.fassigns[v] == nil {
					w.fn.fassigns[v] = map[string][]ast.Expr{}
				}
				w.fn.fassigns[v][l.Sel.Name] = append(w.fn.fassigns[v][l.Sel.Name], rhs)
			}
		}
	}
}

// nilGuard: cond has a conjunct `p != nil` for a parameter p; returns its index or -1.
func (w *walker) nilGuard(cond ast.Expr) int {
	switch c := cond.(type) {
	case *ast.ParenExpr:
		return w.nilGuard(c.X)
	case *ast.BinaryExpr:
		if c.Op == token.LAND {
			if i := w.nilGuard(c.X); i >= 0 {
				return i
			}
			return w.nilGuard(c.Y)
		}
		if c.Op == token.NEQ {
			id, ok1 := c.X.(*ast.Ident)
			nl, ok2 := c.Y.(*ast.Ident)
			if ok1 && ok2 && nl.Name == "nil" {
				if v, ok := w.fn.pkg.info.Uses[id].(*types.Var); ok {
					for i, p := range w.fn.params {
						if p != nil && p == v {
							return i
						}
					}
				}
			}
		}
	}
	return -1
}

func terminates(list []ast.Stmt) bool {
	if len(list) == 0 {
		return false
	}
	switch s := list[len(list)-1].(type) {
	case *ast.ReturnStmt:
		return true
	case *ast.BranchStmt:
		return true
	case *ast.ExprStmt:
		if ce, ok := s.X.(*ast.CallExpr); ok {
			if id, ok := ce.Fun.(*ast.Ident); ok && id.Name == "panic" {
				return true
			}
		}
	}
	return false
}

// block walks statements in order, threading the set of held locks.
func (w *walker) block(list []ast.Stmt, held heldSet) heldSet {
	for _, s := range list {
		held = w.stmt(s, held)
	}
	return held
}

func (w *walker) stmt(s ast.Stmt, held heldSet) heldSet {
	switch t := s.(type) {
	case nil:
		return held
	case *ast.ExprStmt:
		if key, cls, op := w.lockOp(t.X); cls != "" {
			switch op {
			case "Lock":
				held = held.clone()
				held[key] = [2]string{cls, "X"}
			case "RLock":
				held = held.clone()
				held[key] = [2]string{cls, "S"}
			default:
				held = held.clone()
				delete(held, key)
			}
			return held
		}
		if key, cls, role := w.sigOp(t.X); role == "after-wait" {
			w.recordExprs(t.X, held)
			held = held.clone()
			held[key] = [2]string{cls, role}
			return held
		}
		w.recordExprs(t.X, held)
	case *ast.DeferStmt:
		if _, cls, _ := w.lockOp(t.Call); cls != "" {
			return held // deferred unlock: the lock stays held until the function returns
		}
		if key, cls, role := w.sigOp(t.Call); role == "before-close" {
			// the close runs when the function returns: everything after this statement precedes it
			w.recordExprs(t.Call, held)
			held = held.clone()
			held[key] = [2]string{cls, role}
			return held
		}
		w.recordExprs(t.Call, held)
	case *ast.GoStmt:
		for _, a := range t.Call.Args {
			w.publish(a, nil)
		}
		w.recordExprs(t.Call, heldSet{})
	case *ast.AssignStmt:
		if len(t.Lhs) == len(t.Rhs) {
			for i := range t.Lhs {
				w.noteAssign(t.Lhs[i], t.Rhs[i])
			}
		} else if len(t.Rhs) == 1 {
			w.noteAssign(t.Lhs[0], t.Rhs[0])
			for _, l := range t.Lhs[1:] {
				w.noteAssign(l, nil)
			}
		}
		for _, e := range t.Rhs {
			w.recordExprs(e, held)
		}
		for _, e := range t.Lhs {
			w.recordExprs(e, held)
		}
	case *ast.DeclStmt:
		if gd, ok := t.Decl.(*ast.GenDecl); ok {
			for _, sp := range gd.Specs {
				if vs, ok := sp.(*ast.ValueSpec); ok {
					for i, n := range vs.Names {
						if i < len(vs.Values) {
							w.noteAssign(n, vs.Values[i])
						} else if len(vs.Values) == 0 {
							w.noteAssign(n, &ast.Ident{Name: "nil"}) // zero value
						} else {
							w.noteAssign(n, nil)
						}
					}
					for _, e := range vs.Values {
						w.recordExprs(e, held)
					}
				}
			}
		}
	case *ast.BlockStmt:
		return w.block(t.List, held)
	case *ast.IfStmt:
		held = w.stmt(t.Init, held)
		w.recordExprs(t.Cond, held)
		gi := w.nilGuard(t.Cond)
		if gi >= 0 {
			w.fn.nilDead[t.Body] = gi
			w.dead = append(w.dead, t.Body)
		}
		h1 := w.block(t.Body.List, held)
		if gi >= 0 {
			w.dead = w.dead[:len(w.dead)-1]
		}
		t1 := terminates(t.Body.List)
		h2, t2 := held, false
		if t.Else != nil {
			h2 = w.stmt(t.Else, held)
			if b, ok := t.Else.(*ast.BlockStmt); ok {
				t2 = terminates(b.List)
			}
		}
		switch {
		case t1 && t2:
			return held
		case t1:
			return h2
		case t2:
			return h1
		}
		return intersect(h1, h2)
	case *ast.ForStmt:
		held = w.stmt(t.Init, held)
		w.recordExprs(t.Cond, held)
		h := w.block(t.Body.List, held)
		w.stmt(t.Post, h)
		return intersect(held, h)
	case *ast.RangeStmt:
		w.recordExprs(t.X, held)
		if t.Key != nil {
			w.noteAssign(t.Key, nil)
			w.recordExprs(t.Key, held)
		}
		if t.Value != nil {
			w.noteAssign(t.Value, nil)
			if id, ok := t.Value.(*ast.Ident); ok && t.Tok == token.DEFINE {
				if v, ok := w.fn.pkg.info.Defs[id].(*types.Var); ok {
					if _, isSel := t.X.(*ast.SelectorExpr); isSel {
						w.fn.rangeOf[v] = t.X
					}
				}
			}
			w.recordExprs(t.Value, held)
		}
		h := w.block(t.Body.List, held)
		return intersect(held, h)
	case *ast.SwitchStmt:
		held = w.stmt(t.Init, held)
		w.recordExprs(t.Tag, held)
		return w.clauses(t.Body, held)
	case *ast.TypeSwitchStmt:
		held = w.stmt(t.Init, held)
		if as, ok := t.Assign.(*ast.AssignStmt); ok {
			for _, e := range as.Rhs {
				w.recordExprs(e, held)
			}
			for _, l := range as.Lhs {
				w.noteAssign(l, nil)
			}
		} else if es, ok := t.Assign.(*ast.ExprStmt); ok {
			w.recordExprs(es.X, held)
		}
		// the per-clause implicit variable is derived from the switched value: not analysable
		for _, c := range t.Body.List {
			if cc, ok := c.(*ast.CaseClause); ok {
				if o, ok := w.fn.pkg.info.Implicits[cc]; ok {
					if v, ok := o.(*types.Var); ok {
						w.fn.assigns[v] = append(w.fn.assigns[v], nil)
					}
				}
			}
		}
		return w.clauses(t.Body, held)
	case *ast.SelectStmt:
		return w.clauses(t.Body, held)
	case *ast.LabeledStmt:
		return w.stmt(t.Stmt, held)
	case *ast.ReturnStmt:
		for _, e := range t.Results {
			w.recordExprs(e, held)
		}
	case *ast.SendStmt:
		w.publish(t.Value, nil)
		w.recordExprs(t.Chan, held)
		w.recordExprs(t.Value, held)
	case *ast.IncDecStmt:
		w.recordExprs(t.X, held)
	default:
	}
	return held
}

func (w *walker) clauses(body *ast.BlockStmt, held heldSet) heldSet {
	out := held
	first := true
	hasDefault := false
	for _, c := range body.List {
		var list []ast.Stmt
		switch cc := c.(type) {
		case *ast.CaseClause:
			for _, e := range cc.List {
				w.recordExprs(e, held)
			}
			if cc.List == nil {
				hasDefault = true
			}
			list = cc.Body
		case *ast.CommClause:
			if cc.Comm == nil {
				hasDefault = true
			} else {
				w.stmt(cc.Comm, held)
			}
			list = cc.Body
		}
		h := w.block(list, held)
		if terminates(list) {
			continue
		}
		if first {
			out, first = h, false
		} else {
			out = intersect(out, h)
		}
	}
	if !hasDefault || first {
		out = intersect(out, held)
	}
	return out
}

// ---- freshness ----

func (a *raceAnalysis) assumed(fn *rFn, expr string) bool {
	for _, as := range raceAssume {
		if as.fn == fn.name && as.expr == expr {
			a.used[as.fn+" :: "+as.expr] = true
			return true
		}
	}
	return false
}

func (a *raceAnalysis) paramIndex(fn *rFn, v *types.Var) int {
	for i, p := range fn.params {
		if p != nil && p == v {
			return i
		}
	}
	return -1
}

func isPointerLike(t types.Type) bool {
	if t == nil {
		return true
	}
	switch u := t.Underlying().(type) {
	case *types.Struct, *types.Basic:
		_ = u
		if b, ok := t.Underlying().(*types.Basic); ok && b.Kind() == types.Invalid {
			return true
		}
		return false
	case *types.Array:
		return false
	}
	return true
}

// objFresh: the object denoted by e (the struct whose field is accessed / the
// receiver of a call / an argument) was created by the running call itself.
func (a *raceAnalysis) objFresh(fn *rFn, e ast.Expr, depth int) bool {
	if depth > 12 {
		return false
	}
	if a.assumed(fn, exprStr(e)) {
		return true
	}
	info := fn.pkg.info
	switch t := e.(type) {
	case *ast.ParenExpr:
		return a.objFresh(fn, t.X, depth+1)
	case *ast.StarExpr:
		return a.objFresh(fn, t.X, depth+1)
	case *ast.UnaryExpr:
		if t.Op == token.AND {
			if _, ok := t.X.(*ast.CompositeLit); ok {
				return true
			}
			return a.objFresh(fn, t.X, depth+1)
		}
		return false
	case *ast.CompositeLit:
		return true
	case *ast.BasicLit:
		return true
	case *ast.FuncLit:
		return true
	case *ast.Ident:
		if t.Name == "nil" {
			return true
		}
		v, ok := info.Uses[t].(*types.Var)
		if !ok {
			if d, ok2 := info.Defs[t].(*types.Var); ok2 {
				v = d
			} else {
				return false
			}
		}
		if v.Parent() != nil && v.Pkg() != nil && v.Parent() == v.Pkg().Scope() {
			return false // package-level variable
		}
		if i := a.paramIndex(fn, v); i >= 0 {
			if a.assumed(fn, "param:"+v.Name()) {
				return true
			}
			pf := a.parFresh[fn.obj]
			return i < len(pf) && pf[i]
		}
		return a.localFresh(fn, v, depth+1)
	case *ast.CallExpr:
		if id, ok := t.Fun.(*ast.Ident); ok {
			if id.Name == "new" || id.Name == "make" {
				return true
			}
			if id.Name == "append" && len(t.Args) > 0 {
				return a.objFresh(fn, t.Args[0], depth+1)
			}
		}
		var obj *types.Func
		switch f := t.Fun.(type) {
		case *ast.Ident:
			obj, _ = info.Uses[f].(*types.Func)
		case *ast.SelectorExpr:
			if sel := info.Selections[f]; sel != nil {
				obj, _ = sel.Obj().(*types.Func)
			} else {
				obj, _ = info.Uses[f.Sel].(*types.Func)
			}
		}
		if obj != nil && a.fns[obj] != nil {
			return a.freshRet[obj]
		}
		return false
	case *ast.SelectorExpr:
		// X.f denotes the object stored in / pointed to by field f of X
		tv, ok := info.Types[e]
		if ok && !isPointerLike(tv.Type) {
			return a.objFresh(fn, t.X, depth+1) // part of X's own storage
		}
		if id, ok := t.X.(*ast.Ident); ok {
			if v, ok := info.Uses[id].(*types.Var); ok && a.paramIndex(fn, v) < 0 {
				// pointer field of a local: fresh when every value stored into it in this function is fresh
				if !a.objFresh(fn, id, depth+1) {
					return false
				}
				rhs := a.fieldInits(fn, v, t.Sel.Name)
				localOK := len(rhs) > 0
				for _, r := range rhs {
					if r == nil || !a.objFresh(fn, r, depth+1) {
						localOK = false
					}
				}
				if localOK {
					return true
				}
			}
		}
		// pointer field of a per-call object (reached through a parameter, a loop variable ...):
		// per-call when EVERY value stored into that field by code that can run on a task
		// goroutine is per-call (assignments and composite literals, checked: see fieldFresh)
		if fv, class := a.fieldOf(fn.pkg, t); fv != nil {
			return a.objFresh(fn, t.X, depth+1) && a.fieldFresh(class, fv.Name(), depth+1)
		}
		return false
	case *ast.IndexExpr:
		tv, ok := info.Types[e]
		if ok && !isPointerLike(tv.Type) {
			return a.objFresh(fn, t.X, depth+1)
		}
		// an element of a slice field of a per-call object: per-call when every element ever
		// stored into that field on a task goroutine is itself per-call (checked, see elemFresh)
		if se, ok := t.X.(*ast.SelectorExpr); ok {
			if v, class := a.fieldOf(fn.pkg, se); v != nil {
				return a.objFresh(fn, se.X, depth+1) && a.elemFresh(class, v.Name(), depth+1)
			}
		}
		return false
	}
	return false
}

// fieldInits: every expression stored into local v's field (composite literal initialiser + assignments).
func (a *raceAnalysis) fieldInits(fn *rFn, v *types.Var, field string) []ast.Expr {
	var out []ast.Expr
	for _, r := range fn.assigns[v] {
		x := r
		if u, ok := x.(*ast.UnaryExpr); ok && u.Op == token.AND {
			x = u.X
		}
		if cl, ok := x.(*ast.CompositeLit); ok {
			for _, el := range cl.Elts {
				if kv, ok := el.(*ast.KeyValueExpr); ok {
					if id, ok := kv.Key.(*ast.Ident); ok && id.Name == field {
						out = append(out, kv.Value)
					}
				}
			}
		} else {
			out = append(out, nil) // the local did not start as a literal: its fields are unknown
		}
	}
	if fa := fn.fassigns[v]; fa != nil {
		out = append(out, fa[field]...)
	}
	return out
}

// elemFresh: every element stored into the slice field `class` (field name f)
// by code that can run on a task goroutine is a per-call object.  All such
// writes must have the shape  X.f = append(X.f, e1, ...) / make(...) / nil  with
// X a local of the writing function (or be the field's initialiser in X's
// composite literal) and every e_i per-call; anything else (sharing a slice of
// the definition, writing through a parameter, append(xs...)) answers false.
func (a *raceAnalysis) elemFresh(class, field string, depth int) bool {
	switch a.elemMemo[class] {
	case 1, 2:
		return true // 1 = in progress (optimistic, greatest fixpoint)
	case 3:
		return false
	}
	a.elemMemo[class] = 1
	res := true
	writes := 0
	for _, f := range a.fns {
		if !f.conc || !res {
			continue
		}
		for _, acc := range f.accesses {
			if acc.class != class || acc.kind != "W" {
				continue
			}
			writes++
			id, ok := acc.base.(*ast.Ident)
			if !ok {
				res = false
				break
			}
			v, ok := f.pkg.info.Uses[id].(*types.Var)
			if !ok || a.paramIndex(f, v) >= 0 {
				res = false
				break
			}
			inits := a.fieldInits(f, v, field)
			if len(inits) == 0 {
				res = false
				break
			}
			for _, r := range inits {
				if !a.elemsOK(f, r, id.Name+"."+field, depth) {
					res = false
					break
				}
			}
		}
	}
	if writes == 0 {
		res = false // nothing on a task goroutine builds this field: its elements come from elsewhere
	}
	if res {
		a.elemMemo[class] = 2
	} else {
		a.elemMemo[class] = 3
	}
	return res
}

// fieldFresh: every object stored into the pointer field `class` by code that
// can run on a task goroutine is per-call: each assignment  X.f = rhs  (X a
// variable of the writing function) and each composite literal  T{f: rhs}.
func (a *raceAnalysis) fieldFresh(class, field string, depth int) bool {
	key := "field:" + class
	switch a.elemMemo[key] {
	case 1, 2:
		return true
	case 3:
		return false
	}
	a.elemMemo[key] = 1
	res := true
	stores := 0
	for _, li := range a.litInits[class] {
		if !li.fn.conc {
			continue
		}
		stores++
		if !a.objFresh(li.fn, li.rhs, depth+1) {
			res = false
		}
	}
	for _, f := range a.fns {
		if !f.conc || !res {
			continue
		}
		for _, acc := range f.accesses {
			if acc.class != class || acc.kind != "W" {
				continue
			}
			stores++
			id, ok := acc.base.(*ast.Ident)
			if !ok {
				res = false
				break
			}
			v, ok := f.pkg.info.Uses[id].(*types.Var)
			if !ok {
				res = false
				break
			}
			rhs := f.fassigns[v][field]
			if len(rhs) == 0 {
				res = false // written some other way (address taken, mutating call)
				break
			}
			for _, r := range rhs {
				if r == nil || !a.objFresh(f, r, depth+1) {
					res = false
				}
			}
		}
	}
	if stores == 0 {
		res = false
	}
	if res {
		a.elemMemo[key] = 2
	} else {
		a.elemMemo[key] = 3
	}
	return res
}

func (a *raceAnalysis) elemsOK(fn *rFn, rhs ast.Expr, self string, depth int) bool {
	switch t := rhs.(type) {
	case nil:
		return false
	case *ast.Ident:
		return t.Name == "nil"
	case *ast.CallExpr:
		id, ok := t.Fun.(*ast.Ident)
		if !ok {
			return false
		}
		switch id.Name {
		case "make":
			return true
		case "append":
			if t.Ellipsis.IsValid() || len(t.Args) == 0 {
				return false
			}
			if exprStr(t.Args[0]) != self && !a.elemsOK(fn, t.Args[0], self, depth) {
				return false
			}
			for _, e := range t.Args[1:] {
				if !a.objFresh(fn, e, depth+1) {
					return false
				}
			}
			return true
		}
	}
	return false
}

func (a *raceAnalysis) localFresh(fn *rFn, v *types.Var, depth int) bool {
	if !isPointerLike(v.Type()) {
		for _, into := range fn.published[v] {
			_ = into
		}
		return true // a local struct value is its own storage
	}
	switch a.memo[v] {
	case 1:
		return true // cycle: optimistic (greatest fixpoint)
	case 2:
		return true
	case 3:
		return false
	}
	rhs, ok := fn.assigns[v]
	if !ok || len(rhs) == 0 {
		if co, isClosureParam := a.closureOf[v]; isClosureParam {
			// parameter of a closure returned as a named func type: per-call when every call through a
			// value of that type (on a task goroutine) passes a per-call argument, and there is one
			tn, idx := co[0].(*types.TypeName), co[1].(int)
			a.memo[v] = 1
			res, calls := true, 0
			for _, dc := range a.dynCalls[tn] {
				if !dc.fn.conc {
					continue
				}
				calls++
				if idx >= len(dc.args) || !a.objFresh(dc.fn, dc.args[idx], depth+1) {
					res = false
				}
			}
			if calls == 0 {
				res = false
			}
			if res {
				a.memo[v] = 2
			} else {
				a.memo[v] = 3
			}
			return res
		}
		a.memo[v] = 3
		return false // closure parameter, range variable of unknown origin ...
	}
	a.memo[v] = 1
	res := true
	for _, r := range rhs {
		if r == nil {
			// a loop variable over a slice field of a per-call object whose elements are all per-call
			if rx, ok := fn.rangeOf[v]; ok && len(rhs) == 1 {
				if se, ok := rx.(*ast.SelectorExpr); ok {
					if fv, class := a.fieldOf(fn.pkg, se); fv != nil &&
						a.objFresh(fn, se.X, depth+1) && a.elemFresh(class, fv.Name(), depth+1) {
						continue
					}
				}
			}
			res = false
			break
		}
		if !a.objFresh(fn, r, depth+1) {
			res = false
			break
		}
	}
	for _, into := range fn.published[v] {
		if into == nil || !a.objFresh(fn, into, depth+1) {
			res = false // stored into an object other goroutines can reach
			break
		}
	}
	if res {
		a.memo[v] = 2
	} else {
		a.memo[v] = 3
	}
	return res
}

func (a *raceAnalysis) computeFreshRet(fn *rFn) bool {
	if fn.decl.Type.Results == nil || len(fn.decl.Type.Results.List) == 0 {
		return false
	}
	ok := true
	seen := false
	var visit func(n ast.Node) bool
	visit = func(n ast.Node) bool {
		switch t := n.(type) {
		case *ast.FuncLit:
			return false
		case *ast.ReturnStmt:
			seen = true
			if len(t.Results) == 0 {
				ok = false
				return false
			}
			if len(t.Results) == 1 && len(fn.decl.Type.Results.List) > 1 {
				// return f(...) forwarding several results
				if !a.objFresh(fn, t.Results[0], 0) {
					ok = false
				}
				return false
			}
			if !a.objFresh(fn, t.Results[0], 0) {
				ok = false
			}
			return false
		}
		return true
	}
	ast.Inspect(fn.decl.Body, visit)
	return ok && seen
}

func (a *raceAnalysis) isDeadInConc(fn *rFn, dead []ast.Node) bool {
	for _, b := range dead {
		if i, ok := fn.nilDead[b]; ok {
			pn := a.parNil[fn.obj]
			if i < len(pn) && pn[i] {
				return true
			}
		}
	}
	return false
}

func (a *raceAnalysis) targets(c rCall) []*rFn {
	if c.fn != nil {
		if f := a.fns[c.fn]; f != nil {
			return []*rFn{f}
		}
		return nil
	}
	var out []*rFn
	for _, f := range a.byName[c.name] {
		if f.decl.Recv != nil {
			out = append(out, f)
		}
	}
	return out
}

// entryHeld: for unexported functions all of whose uses are static calls inside
// the module, the locks (of the receiver / an argument) held at every call site,
// renamed to the callee's parameter names.
func (a *raceAnalysis) entryHeld() map[*types.Func]heldSet {
	type acc struct {
		h    heldSet
		seen bool
	}
	res := map[*types.Func]*acc{}
	refd := map[*types.Func]bool{}
	for _, g := range a.fns {
		called := map[*ast.Ident]bool{}
		ast.Inspect(g.decl.Body, func(n ast.Node) bool {
			if ce, ok := n.(*ast.CallExpr); ok {
				switch fx := ce.Fun.(type) {
				case *ast.Ident:
					called[fx] = true
				case *ast.SelectorExpr:
					called[fx.Sel] = true
				}
			}
			return true
		})
		ast.Inspect(g.decl.Body, func(n ast.Node) bool {
			if id, ok := n.(*ast.Ident); ok && !called[id] {
				if obj, ok := g.pkg.info.Uses[id].(*types.Func); ok {
					refd[obj] = true
				}
			}
			return true
		})
	}
	for _, g := range a.fns {
		for _, c := range g.calls {
			if c.fn == nil {
				continue
			}
			f := a.fns[c.fn]
			if f == nil || ast.IsExported(f.decl.Name.Name) {
				continue
			}
			mapped := heldSet{}
			for k, v := range c.held {
				base := k[:strings.Index(k, "\x00")]
				name := ""
				if c.recv != nil && exprStr(c.recv) == base && f.params[0] != nil {
					name = f.params[0].Name()
				}
				for i, arg := range c.args {
					if exprStr(arg) == base && i+1 < len(f.params) && f.params[i+1] != nil {
						name = f.params[i+1].Name()
					}
				}
				if name != "" {
					mapped[name+"\x00"+v[0]] = v
				}
			}
			r := res[c.fn]
			if r == nil {
				res[c.fn] = &acc{h: mapped, seen: true}
			} else {
				r.h = intersect(r.h, mapped)
			}
		}
	}
	out := map[*types.Func]heldSet{}
	for obj, r := range res {
		if refd[obj] || len(r.h) == 0 {
			continue
		}
		out[obj] = r.h
	}
	return out
}

func (a *raceAnalysis) solve() {
	// concurrency set
	var roots []*rFn
	for _, f := range a.fns {
		if f.name == "task.(*Executor).RunTask" {
			roots = append(roots, f)
		}
	}
	work := roots
	for len(work) > 0 {
		f := work[len(work)-1]
		work = work[:len(work)-1]
		if f.conc {
			continue
		}
		f.conc = true
		for obj := range f.callees {
			if g := a.fns[obj]; g != nil && !g.conc {
				work = append(work, g)
			}
		}
		for name := range f.ifaceCalls {
			for _, g := range a.byName[name] {
				if g.decl.Recv != nil && !g.conc {
					work = append(work, g)
				}
			}
		}
	}
	// optimistic start
	for obj, f := range a.fns {
		a.freshRet[obj] = f.decl.Type.Results != nil && len(f.decl.Type.Results.List) > 0
		pf := make([]bool, len(f.params))
		pn := make([]bool, len(f.params))
		called := false
		for _, g := range a.fns {
			if !g.conc {
				continue
			}
			for _, c := range g.calls {
				for _, tg := range a.targets(c) {
					if tg == f {
						called = true
					}
				}
			}
		}
		isRoot := f.name == "task.(*Executor).RunTask"
		for i := range pf {
			pf[i] = called && !a.valueRef[obj] && !isRoot
			pn[i] = called && !a.valueRef[obj] && !isRoot
		}
		a.parFresh[obj] = pf
		a.parNil[obj] = pn
	}
	for iter := 0; iter < 50; iter++ {
		changed := false
		a.memo, a.elemMemo = map[*types.Var]int{}, map[string]int{}
		for obj, f := range a.fns {
			if a.freshRet[obj] && !a.computeFreshRet(f) {
				a.freshRet[obj] = false
				changed = true
			}
		}
		a.memo, a.elemMemo = map[*types.Var]int{}, map[string]int{}
		for _, g := range a.fns {
			if !g.conc {
				continue
			}
			for _, c := range g.calls {
				if a.isDeadInConc(g, c.deadIdx) {
					continue
				}
				for _, tg := range a.targets(c) {
					pf := a.parFresh[tg.obj]
					pn := a.parNil[tg.obj]
					if c.recv != nil && len(pf) > 0 && pf[0] && !a.objFresh(g, c.recv, 0) {
						pf[0] = false
						changed = true
					}
					if len(pn) > 0 && pn[0] {
						pn[0] = false
						changed = true
					}
					for i, arg := range c.args {
						k := i + 1
						if k >= len(pf) {
							break
						}
						if pf[k] && !a.objFresh(g, arg, 0) {
							pf[k] = false
							changed = true
						}
						isNil := false
						if id, ok := arg.(*ast.Ident); ok && id.Name == "nil" {
							isNil = true
						}
						if pn[k] && !isNil {
							pn[k] = false
							changed = true
						}
					}
					if len(c.args)+1 < len(pf) { // variadic / forwarded tuple: unknown
						for k := len(c.args) + 1; k < len(pf); k++ {
							if pf[k] || pn[k] {
								pf[k], pn[k] = false, false
								changed = true
							}
						}
					}
				}
			}
		}
		if !changed {
			break
		}
	}
	a.memo, a.elemMemo = map[*types.Var]int{}, map[string]int{}
	for _, f := range a.fns {
		for _, acc := range f.accesses {
			switch {
			case !f.conc:
				acc.scope = "shared"
			case a.isDeadInConc(f, acc.dead):
				acc.scope = "dead"
			case a.objFresh(f, acc.base, 0):
				acc.scope = "fresh"
			default:
				acc.scope = "shared"
			}
		}
	}
}

// ---- emission ----

func rcStr(s string) string { return "\"" + strings.ReplaceAll(s, "\"", "\"\"") + "\"" }

func raceFailClosed(o *out, why string) {
	// an entry no discipline accepts: a shared unlocked concurrent write next to a shared unlocked read
	o.def("race_extract_ok", "bool", "false")
	o.def("race_extract_note", "string", rcStr(why))
	o.def("race_access_table", "list (string * (string * (string * (string * (list (string * string) * (bool * (string * string)))))))",
		`[("extractor", ("failed", ("unknown", ("W", ([], (false, ("conc", "shared"))))))); ("extractor", ("failed", ("unknown", ("R", ([], (false, ("conc", "shared")))))))]`)
	o.def("race_post_setup_writes", "list (string * (string * (string * string)))", "[]")
	o.def("race_class_summary", "list (string * (nat * (nat * nat)))", "[]")
	o.def("race_assumptions", "list (string * string)", "[]")
	o.def("race_conc_functions", "list string", "[]")
}

func factsRace(repo string, o *out) {
	mark := o.sb.Len()
	defer func() {
		if r := recover(); r != nil {
			s := o.sb.String()[:mark]
			o.sb.Reset()
			o.sb.WriteString(s)
			raceFailClosed(o, fmt.Sprint("panic: ", r))
		}
	}()
	l := &rLoader{repo: repo, fset: token.NewFileSet(), pkgs: map[string]*rPkg{}, stub: map[string]*types.Package{}, ext: map[string]*types.Package{}}
	_, _ = l.Import(raceMod)
	a := &raceAnalysis{l: l, fns: map[*types.Func]*rFn{}, byName: map[string][]*rFn{}, lockField: map[*types.Var]string{},
		freshRet: map[*types.Func]bool{}, parFresh: map[*types.Func][]bool{}, parNil: map[*types.Func][]bool{},
		valueRef: map[*types.Func]bool{}, used: map[string]bool{}, memo: map[*types.Var]int{},
		elemMemo: map[string]int{}, closureOf: map[*types.Var][2]any{}, dynCalls: map[*types.TypeName][]dynCall{}, litInits: map[string][]litInit{}}
	a.collect()
	if len(a.fns) < 50 {
		raceFailClosed(o, "too few functions loaded")
		return
	}
	// Locks held by EVERY caller of an unexported helper count as held inside it
	// (e.g. a Write method that locks and then calls an internal flush): iterate
	// from "nothing held on entry" until the entry sets are stable.
	entry := map[*types.Func]heldSet{}
	for round := 0; round < 5; round++ {
		a.litInits, a.dynCalls = map[string][]litInit{}, map[*types.TypeName][]dynCall{}
		for _, f := range a.fns {
			f.calls, f.accesses = nil, nil
			f.callees, f.ifaceCalls = map[*types.Func]bool{}, map[string]bool{}
			f.assigns, f.fassigns = map[*types.Var][]ast.Expr{}, map[*types.Var]map[string][]ast.Expr{}
			f.nilDead, f.published, f.rangeOf = map[ast.Node]int{}, map[*types.Var][]ast.Expr{}, map[*types.Var]ast.Expr{}
			w := &walker{a: a, fn: f, writes: map[ast.Expr]bool{}, atomic: map[ast.Expr]bool{}}
			w.premark(f.decl.Body)
			init := heldSet{}
			for k, v := range entry[f.obj] {
				init[k] = v
			}
			w.block(f.decl.Body.List, init)
		}
		next := a.entryHeld()
		same := len(next) == len(entry)
		for k, v := range next {
			if len(entry[k]) != len(v) {
				same = false
			}
		}
		entry = next
		if same {
			break
		}
	}
	for _, f := range a.fns {
		// functions used as values (callbacks, method values): their parameters are unknown
		called := map[*ast.Ident]bool{}
		ast.Inspect(f.decl.Body, func(n ast.Node) bool {
			if ce, ok := n.(*ast.CallExpr); ok {
				switch fx := ce.Fun.(type) {
				case *ast.Ident:
					called[fx] = true
				case *ast.SelectorExpr:
					called[fx.Sel] = true
				case *ast.IndexExpr:
					switch g := fx.X.(type) {
					case *ast.Ident:
						called[g] = true
					case *ast.SelectorExpr:
						called[g.Sel] = true
					}
				}
			}
			return true
		})
		ast.Inspect(f.decl.Body, func(n ast.Node) bool {
			if id, ok := n.(*ast.Ident); ok && !called[id] {
				if obj, ok := f.pkg.info.Uses[id].(*types.Func); ok && a.fns[obj] != nil {
					a.valueRef[obj] = true
					f.callees[obj] = true
				}
			}
			return true
		})
	}
	a.solve()

	// classes
	type clsStat struct{ concR, concW, mainW int }
	stats := map[string]*clsStat{}
	var all []*rAccess
	for _, f := range a.fns {
		for _, acc := range f.accesses {
			st := stats[acc.class]
			if st == nil {
				st = &clsStat{}
				stats[acc.class] = st
			}
			switch {
			case f.conc && acc.scope != "dead" && acc.kind == "W":
				st.concW++
			case f.conc && acc.scope != "dead":
				st.concR++
			case acc.kind == "W":
				st.mainW++
			}
			all = append(all, acc)
		}
	}
	always := map[string]bool{"taskfile/ast.Tasks.om": true, "taskfile/ast.Includes.om": true, "taskfile/ast.Matrix.om": true, "taskfile/ast.Vars.om": true}
	type key struct {
		fn, class, kind, locks, scope string
		atomic                        bool
		phase                         string
	}
	type row struct {
		k      key
		detail string
		n      int
		locks  [][2]string
	}
	rows := map[key]*row{}
	var order []key
	sort.Slice(all, func(i, j int) bool {
		if all[i].fn.name != all[j].fn.name {
			return all[i].fn.name < all[j].fn.name
		}
		if all[i].class != all[j].class {
			return all[i].class < all[j].class
		}
		return all[i].expr < all[j].expr
	})
	for _, acc := range all {
		st := stats[acc.class]
		if acc.scope == "dead" {
			continue
		}
		if st.concW == 0 && !always[acc.class] {
			continue // never written on a task goroutine: immutable after Setup, see race_class_summary
		}
		if !acc.fn.conc && acc.kind != "W" {
			continue // reads outside task goroutines never matter
		}
		var ls []string
		for _, lk := range acc.locks {
			ls = append(ls, lk[0]+":"+lk[1])
		}
		phase := "conc"
		if !acc.fn.conc {
			phase = "main"
		}
		k := key{acc.fn.name, acc.class, acc.kind, strings.Join(ls, ","), acc.scope, acc.atomic, phase}
		r := rows[k]
		if r == nil {
			r = &row{k: k, detail: acc.expr, locks: acc.locks}
			rows[k] = r
			order = append(order, k)
		}
		r.n++
	}
	var entries, writes []string
	for _, k := range order {
		r := rows[k]
		var lks []string
		for _, lk := range r.locks {
			lks = append(lks, fmt.Sprintf("(%s, %s)", rcStr(lk[0]), rcStr(lk[1])))
		}
		detail := r.detail
		if r.n > 1 {
			detail = fmt.Sprintf("%s (x%d)", detail, r.n)
		}
		entries = append(entries, fmt.Sprintf("(%s, (%s, (%s, (%s, ([%s], (%t, (%s, %s)))))))",
			rcStr(k.fn), rcStr(detail), rcStr(k.class), rcStr(k.kind), strings.Join(lks, "; "), k.atomic, rcStr(k.phase), rcStr(k.scope)))
		if k.kind == "W" && k.phase == "conc" {
			writes = append(writes, fmt.Sprintf("(%s, (%s, (%s, %s)))", rcStr(k.fn), rcStr(detail), rcStr(k.class), rcStr(k.scope)))
		}
	}
	// total order on everything emitted: two runs on the same tree must be byte-identical
	sort.Strings(entries)
	sort.Strings(writes)
	var classes []string
	for c := range stats {
		classes = append(classes, c)
	}
	sort.Strings(classes)
	var summary []string
	for _, c := range classes {
		st := stats[c]
		summary = append(summary, fmt.Sprintf("(%s, (%d, (%d, %d)))", rcStr(c), st.concR, st.concW, st.mainW))
	}
	var assum []string
	for _, as := range raceAssume {
		if a.used[as.fn+" :: "+as.expr] {
			assum = append(assum, fmt.Sprintf("(%s, %s)", rcStr(as.fn+" :: "+as.expr), rcStr(as.why)))
		}
	}
	var concFns []string
	for _, f := range a.fns {
		if f.conc {
			concFns = append(concFns, f.name)
		}
	}
	sort.Strings(concFns)
	sep := ";\n   "
	o.sb.WriteString("\n(* ---- C18 / model J: access table (extract/facts_race.go) ---- *)\n")
	o.def("race_extract_ok", "bool", "true")
	o.def("race_extract_note", "string", rcStr(fmt.Sprintf("%d functions, %d on task goroutines, %d field accesses, %d classes", len(a.fns), len(concFns), len(all), len(classes))))
	o.sb.WriteString("(* (function, (expression, (object class, (R|W, (locks of the same object held: (lock class, X|S), (atomic, (phase, scope))))))))\n   only accesses that can run on a task goroutine, for classes written on a task goroutine (plus the ordered-map containers) *)\n")
	o.def("race_access_table", "list (string * (string * (string * (string * (list (string * string) * (bool * (string * string)))))))",
		"\n  ["+strings.Join(entries, sep)+"]")
	o.sb.WriteString("(* assignments / mutating calls on struct fields outside Setup and decoding: (function, (expression, (class, scope))) *)\n")
	o.def("race_post_setup_writes", "list (string * (string * (string * string)))", "\n  ["+strings.Join(writes, sep)+"]")
	o.sb.WriteString("(* every class seen: (class, (reads on task goroutines, (writes on task goroutines, writes elsewhere))) *)\n")
	o.def("race_class_summary", "list (string * (nat * (nat * nat)))", "\n  ["+strings.Join(summary, sep)+"]")
	o.def("race_assumptions", "list (string * string)", "\n  ["+strings.Join(assum, sep)+"]")
	o.def("race_conc_functions", "list string", "\n  ["+strings.Join(quoteAll(concFns), "; ")+"]")
}

func quoteAll(ss []string) []string {
	out := make([]string, len(ss))
	for i, s := range ss {
		out[i] = rcStr(s)
	}
	return out
}
