#!/bin/sh
# usage: tools/scratchrun.sh <patch.diff|-> <driver> <n> <extra> <seed>... : run one harness driver against a SCRATCH worktree
# of /repo (HEAD + patch) without touching /repo's working tree or the shared Coq facts; prints failing result lists
# and implementation failures per seed. For analysing why a seeded change is (not) caught.
P=$1; DRV=$2; N=$3; X=$4; shift 4
export GOFLAGS=-mod=mod GOPROXY=off GOSUMDB=off GOTOOLCHAIN=local
W=/tmp/sr-$$; mkdir -p $W
git -C /repo worktree add -q --detach $W/wt HEAD || exit 2
[ "$P" != "-" ] && { git -C $W/wt apply "$P" || { echo "patch does not apply"; git -C /repo worktree remove --force $W/wt; exit 2; }; }
cp -r /verif/harness $W/h && cd $W/h && sed -i "s#=> /repo#=> $W/wt#" go.mod && cp $W/wt/go.sum . && go build -o $W/vh ./cmd/$DRV || { echo "harness build fails"; }
(cd $W/wt && go build -o $W/task ./cmd/task)
(cd /verif/coq && /verif/tools/mk.sh $(ls Run/*.v | sed 's/\.v$/.vo/')) >/dev/null 2>&1   # checkers used by cases.v
for s in "$@"; do
  ( mkdir -p $W/o$s; VERIF_TASK_BIN=$W/task VERIF_BUILD=$W timeout -s KILL 1500 $W/vh -seed $s -n $N -out $W/o$s -tier quick ${X:+-x $X} >/dev/null 2>&1
    cd $W/o$s && coqc -Q /verif/coq TV cases.v 2>&1 | tr '\n' ' ' | sed 's/R_/\nR_/g' | grep "^R_" | grep -v "= \[\]" | cut -c1-200 | sed "s/^/seed $s: /"
    python3 -c "
import json
d=json.load(open('obs.json'))
for f in (d.get('impl_failures') or []): print('seed $s: impl', f['case'], f['kind'], f['msg'][:160].replace(chr(10),' '))
print('seed $s: cases', d['cases'])" ) &
done
wait
cd /; git -C /repo worktree remove --force $W/wt; git -C /repo worktree prune; [ -n "$KEEP" ] && echo "kept $W" || rm -rf $W
