#!/usr/bin/env python3
"""Assemble /verif/DESIGN.md from docs/AS_BUILT_top.md, docs/AS_BUILT_models.md, docs/AS_BUILT_mid.md,
the measured seeded-change table (seeded/RESULTS.tsv + seeded/*/meta.json), docs/AS_BUILT_end.md and docs/PLAN.md."""
import json, os, re
V = os.path.dirname(os.path.dirname(os.path.abspath(__file__)))
rd = lambda p: open(os.path.join(V, p)).read()

def models():
    s = rd('docs/AS_BUILT_models.md')
    s = re.sub(r'^### ', '#### ', s, flags=re.M)
    s = re.sub(r'^## ', '### ', s, flags=re.M)
    s = re.sub(r'^# .*$', '## I.4 Models B–J as built — C04 C05 C08–C12 C15–C20', s, count=1, flags=re.M)
    return s

def seeded():
    out = ["## I.8 Seeded breaking changes: which check catches which",
           "",
           "Fresh sub-agents, given only the text of one property and a scratch worktree of `/repo` (nothing from",
           "`/verif`), each produced realistic changes that break the property while the tree still compiles and the",
           "pinned suite passes; I confirmed each in a scratch worktree (build, baseline 491/0 missing, demonstration",
           "fails on the patched tree and passes on the pristine one) and keep them under `seeded/<id>/` (`patch.diff`,",
           "demonstration, `meta.json`).  `tools/mutscore.sh` applies each to `/repo`, runs the quick check of its",
           "property, undoes it, and writes `seeded/RESULTS.tsv`; the table is generated from that file.",
           "*concrete* = VIOLATION with a failing input as replay; *obligation* = a proof obligation or the",
           "correspondence broke and no failing input was found (`no-failing-input-found`); *MISSED* = exit 0.",
           "",
           "| id | seeded change | verdict of `bin/check` (quick) |", "|---|---|---|"]
    res = {}
    p = os.path.join(V, 'seeded/RESULTS.tsv')
    if os.path.exists(p):
        for l in open(p):
            f = l.rstrip('\n').split('\t')
            if len(f) >= 2:
                res[f[0]] = f[1]
    n = {'concrete': 0, 'no-failing-input': 0, 'MISSED': 0}
    for d in sorted(os.listdir(os.path.join(V, 'seeded'))):
        mp = os.path.join(V, 'seeded', d, 'meta.json')
        if not os.path.exists(mp):
            continue
        meta = json.load(open(mp))
        t = meta.get('title', '').replace('|', '/')
        t = re.sub(r'^C\d\d\s*/\s*(seeded )?change \d\s*[:—-]\s*', '', t)
        v = res.get(d, 'not run')
        n[v] = n.get(v, 0) + 1
        vv = {'no-failing-input': 'obligation'}.get(v, v)
        if meta.get('note'):
            vv += ' — ' + meta['note'].replace('|', '/')
        out.append("| %s | %s | %s |" % (d, t[:170], vv))
    out += ["", "Totals: %d concrete, %d obligation-only, %d missed, of %d." % (n.get('concrete', 0), n.get('no-failing-input', 0), n.get('MISSED', 0), sum(n.values())), ""]
    hist = os.path.join(V, 'docs/SEEDED_HISTORY.md')
    if os.path.exists(hist):
        out.append(open(hist).read())
    return "\n".join(out)

parts = [rd('docs/AS_BUILT_top.md'), models(), rd('docs/AS_BUILT_mid.md'), seeded(), rd('docs/AS_BUILT_end.md'),
         "---------------------------------------------------------------------------\n\n" + rd('docs/PLAN.md')]
open(os.path.join(V, 'DESIGN.md'), 'w').write("\n\n".join(p.rstrip('\n') for p in parts) + "\n")
print("DESIGN.md written:", sum(p.count('\n') for p in parts), "lines")
