#!/bin/sh
# usage: tools/confirm_seeded.sh <Cxx> <worktree> <outdir> <k_from>: confirm the seeded changes <outdir>/{1,2} produced by a
# seeding agent for property Cxx in scratch worktree <worktree> (apply, build, pinned suite, demonstration on patched /
# pristine tree) and package them as /verif/seeded/Cxx-<k_from>, Cxx-<k_from+1>.
export GOFLAGS=-mod=mod GOPROXY=off GOSUMDB=off GOTOOLCHAIN=local
p=$1; WT=$2; OUT=$3; K=$4
for k in 1 2; do
  S=$OUT/$k; id=$p-$((K+k-1)); D=/verif/seeded/$id
  [ -f $S/patch.diff ] || { echo "$id: no patch"; continue; }
  git -C $WT checkout -q -- . ; git -C $WT clean -fdq
  git -C $WT apply $S/patch.diff || { echo "$id: patch does not apply"; continue; }
  (cd $WT && go build ./... ) || { echo "$id: build fails"; git -C $WT checkout -q -- .; continue; }
  B=$(VERIF_REPO=$WT /verif/bin/baseline 2>&1 | tail -1)
  P1=$(timeout -s KILL 900 sh $S/run.sh $WT >/dev/null 2>&1; echo $?)
  git -C $WT checkout -q -- . ; git -C $WT clean -fdq
  P0=$(timeout -s KILL 900 sh $S/run.sh $WT >/dev/null 2>&1; echo $?)
  echo "$id: baseline[$B] demo patched rc=$P1 pristine rc=$P0"
  case "$B" in *"missing=0"*) ;; *) echo "$id: REJECTED (suite)"; continue;; esac
  [ "$P1" = 1 ] && [ "$P0" = 0 ] || { echo "$id: REJECTED (demo)"; continue; }
  mkdir -p $D; cp $S/patch.diff $S/run.sh $S/notes.md $D/ 2>/dev/null
  python3 - "$p" "$id" "$B" "$P1" "$P0" <<'PY'
import sys,json,subprocess
p,id_,B,P1,P0=sys.argv[1:]
notes=open('/verif/seeded/%s/notes.md'%id_).read()
title=[l for l in notes.splitlines() if l.strip()][0].lstrip('# ').strip()
head=subprocess.check_output(['git','-C','/repo','rev-parse','--short','HEAD']).decode().strip()
json.dump(dict(property=p,title=title,base_commit=head,verified=dict(build_ok=True,baseline=B,demo_patched_rc=int(P1),demo_pristine_rc=int(P0))),open('/verif/seeded/%s/meta.json'%id_,'w'),indent=1)
PY
done
