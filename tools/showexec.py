#!/usr/bin/env python3
"""debug helper: print exec-driver cases (program, observations) from a driver output dir"""
import json, sys
d=json.load(open(sys.argv[1]+'/obs.json'))
idx=json.load(open(sys.argv[1]+'/index.json'))['R_agree']
def show(li):
    gi=idx[li]
    c=d['case_inputs'][gi]
    p=c['prog']
    print("CASE local",li,"global",gi,"procs",c['procs'],"seed",c['seed'],"cfg",{k:v for k,v in p['cfg'].items()})
    for i,t in enumerate(p['tasks']):
        print(" t%d run=%s ign=%s int=%s g=%s"%(i,t['run'],t['ignore'],t['internal'],{k:v for k,v in t['g'].items() if (k in('platform','required','enum') and not v) or (k in('prompt','uptodate') and v) or (k=='precond' and v is not None)}))
        print("    deps",[(x['task'],x['var']) for x in t['deps'] or []])
        print("    cmds",[(x['kind'],x.get('exit',0),x.get('ign',False),(x['call']['task'],x['call']['var']) if x.get('call') else None) for x in t['cmds'] or []])
    n=0
    for o in c['out']['obs']:
        if o['arr']:
            e=o['ev']; print("  %3d A%d %s %s i=%s v=%s t=%s code=%s key=%s hint=%s"%(n,o['id'],e['k'],e.get('p'),e.get('i',0),e.get('v',0),e.get('t',0),e.get('code',0),e.get('key',''),o.get('hint')))
        else: print("  %3d R%d"%(n,o['id']))
        n+=1
    print(" result",c['out']['result_str'], c['out']['result'])
for li in map(int,sys.argv[2:]): show(li)
