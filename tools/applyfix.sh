#!/bin/sh
# usage: tools/applyfix.sh <proposed_fixes/X.md> "<commit subject after 'fix: '>"
# extracts the diff block(s), applies to /repo, builds, runs the pinned suite, commits.
set -e
MD=$(readlink -f $1); MSG=$2
python3 - "$MD" <<'PY'
import sys,re
s=open(sys.argv[1]).read()
blocks=re.findall(r"```(?:diff|patch)\n(.*?)```", s, re.S)
open('/tmp/pf.diff','w').write("\n".join(blocks))
PY
cd /repo
git apply /tmp/pf.diff
gofmt -l $(git diff --name-only | grep '\.go$') || true
export GOFLAGS=-mod=mod GOPROXY=off GOSUMDB=off GOTOOLCHAIN=local
go build ./... 
if /verif/bin/baseline | tail -3 | grep -q "missing=0"; then
  BODY=$(head -1 $MD | sed 's/^# //')
  git add -A && git commit -q -m "fix: $MSG" -m "$BODY" && echo "COMMITTED $(git log --oneline | head -1)"
else
  echo "BASELINE FAILED; reverting"; git checkout -- . ; git clean -fdq; exit 1
fi
