#!/bin/sh
# usage: tools/mutscore.sh [ids...] : run every seeded change of /verif/seeded against the check of its property
# (quick tier) and write seeded/RESULTS.tsv: id, verdict (concrete | no-failing-input | MISSED), first VIOLATION line.
# Needs exclusive use of /repo; evidence files are restored by trymut.sh.
cd /verif
OUT=seeded/RESULTS.tsv
[ $# -gt 0 ] && LIST="$*" || { LIST=$(ls seeded | grep '^C[0-9]'); : > $OUT; }
for id in $LIST; do
  p=${id%%-*}
  log=$(tools/trymut.sh /verif/seeded/$id/patch.diff $p 2>&1)
  v=$(echo "$log" | grep '^VIOLATION' | grep -v 'no-failing-input-found' | head -1)
  w=$(echo "$log" | grep '^VIOLATION' | head -1)
  if [ -n "$v" ]; then verdict=concrete; line=$v; elif [ -n "$w" ]; then verdict=no-failing-input; line=$w; else verdict=MISSED; line=$(echo "$log" | grep '^OK\|does not apply' | head -1); fi
  printf '%s\t%s\t%s\n' "$id" "$verdict" "$line" | tee -a $OUT
done
