#!/bin/sh
# usage: tools/robust.sh quick "2 3 4" | tools/robust.sh thorough "1" : run every check on the (clean) tree with the given
# seeds and print one line per run; evidence files are saved and restored (only seed-1 quick runs are committed evidence).
cd /verif
TIER=$1; SEEDS=$2
SAVE=$(mktemp -d /tmp/evsave.XXXXXX); cp evidence/*.json $SAVE/ 2>/dev/null
for s in $SEEDS; do
  for i in $(seq -w 1 20); do
    t0=$(date +%s)
    out=$(VERIF_SEED=$s bin/check C$i --tier $TIER 2>&1 | grep -E "^(VIOLATION|OK )" | cut -c1-160 | tr '\n' ';')
    echo "seed=$s C$i $(( $(date +%s) - t0 ))s $out"
  done
done
cp $SAVE/*.json evidence/ 2>/dev/null; rm -rf $SAVE
