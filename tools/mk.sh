#!/bin/sh
# build Coq targets under the shared lock: tools/mk.sh Exec/InvUniq.vo ...
cd /verif/coq
flock /verif/.build/coq.lock sh -c 'cat project.d/*.txt | python3 -c "
import sys,os
for l in sys.stdin:
    t=l.strip()
    if t.endswith(\".v\") and not os.path.exists(t) and t!=\"Extracted/Facts.v\": continue
    if t: print(t)" > _CoqProject.new; if ! cmp -s _CoqProject.new _CoqProject; then mv _CoqProject.new _CoqProject; coq_makefile -f _CoqProject -o Makefile >/dev/null 2>&1; else rm _CoqProject.new; fi; timeout 900 make "$@" 2>&1 | grep -v "^COQ\|Closed under"' sh "$@"
