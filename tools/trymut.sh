#!/bin/sh
# usage: tools/trymut.sh <patch.diff> <check ids...> : apply a seeded change to /repo, run the checks, undo it
P=$1; shift
cd /repo && git apply "$P" || { echo "patch does not apply"; exit 2; }
cd /verif
for c in "$@"; do echo "== $c"; bin/check $c 2>&1 | grep -v "^  " | tail -4; done
git -C /repo checkout -- . && git -C /repo clean -fdq
git -C /repo status --short | head -3
