#!/bin/sh
# usage: tools/trymut.sh <patch.diff> <check ids...> : apply a seeded change to /repo, run the checks, undo it.
# Evidence files are saved and restored: committed evidence must come from clean-tree runs only.
P=$1; shift
cd /repo && git apply "$P" || { echo "patch does not apply"; exit 2; }
cd /verif
SAVE=$(mktemp -d /tmp/evsave.XXXXXX); cp evidence/*.json $SAVE/ 2>/dev/null
for c in "$@"; do echo "== $c"; bin/check $c 2>&1 | grep -E "^(VIOLATION|OK |KNOWN-FINDING|BROKEN|ERROR)" | cut -c1-300; done
cp $SAVE/*.json evidence/ 2>/dev/null; rm -rf $SAVE
git -C /repo checkout -- . && git -C /repo clean -fdq
git -C /repo status --short | head -3
